#!/usr/bin/env python3
"""Validates MANIFEST.json and every evidence file against the schemas in /root/.vp."""
import json, sys, glob, os
import jsonschema
V = os.path.dirname(os.path.dirname(os.path.abspath(__file__)))
bad = 0
ms = json.load(open('/root/.vp/MANIFEST.schema.json')); es = json.load(open('/root/.vp/EVIDENCE.schema.json'))
m = json.load(open(V + '/MANIFEST.json'))
jsonschema.validate(m, ms)
for c in m['checks']:
    p = c['evidence_file']
    if not os.path.exists(p):
        print('missing evidence', p); bad += 1; continue
    try:
        e = json.load(open(p)); jsonschema.validate(e, es)
        assert e['level'] == c['level_claimed']['category'], 'level mismatch'
    except Exception as ex:
        print('invalid', p, str(ex)[:200]); bad += 1
print('manifest ok, %d checks, %d evidence problems' % (len(m['checks']), bad))
sys.exit(1 if bad else 0)
