#!/usr/bin/env python3
"""Seeded-defect bookkeeping: import the changes produced by independent sub-agents, confirm them in a scratch worktree
(patch applies, repository test suite still passes, demonstration fails with / passes without the change) and run the checks
of /verif against the changed tree (VERIF_REPO=<scratch worktree>; /repo itself is never modified).

  tools/seeded.py import  <agent-out-dir> <CID> [w2]   -> /verif/seeded/<CID>-[w2]m<k>/ {patch.diff, demo.py, notes.md, meta.json}
  tools/seeded.py confirm [<name or glob> ...]          (all when no name is given)
  tools/seeded.py eval    [--tier quick|thorough] [--all-checks] [<name> ...]
  tools/seeded.py table                                  -> markdown table of what catches what
"""
import json
import os
import shutil
import subprocess
import sys
import time

V = os.path.dirname(os.path.dirname(os.path.abspath(__file__)))
SEEDED = os.path.join(V, 'seeded')
PY = '/venv/bin/python'


def sh(cmd, **kw):
    return subprocess.run(cmd, shell=isinstance(cmd, str), capture_output=True, text=True, **kw)


class Scratch:
    """A scratch git worktree of /repo HEAD outside /repo and /verif, removed afterwards."""

    def __init__(self, tag):
        self.path = '/tmp/seedeval/wt-%s-%d' % (tag, os.getpid())

    def __enter__(self):
        os.makedirs('/tmp/seedeval', exist_ok=True)
        r = sh(['git', '-C', '/repo', 'worktree', 'add', '-q', '--detach', self.path, 'HEAD'])
        if r.returncode:
            raise RuntimeError(r.stderr)
        return self.path

    def __exit__(self, *a):
        sh(['git', '-C', '/repo', 'worktree', 'remove', '--force', self.path])
        shutil.rmtree(self.path, ignore_errors=True)
        return False


def names(args):
    all_ = sorted(d for d in os.listdir(SEEDED) if os.path.isdir(os.path.join(SEEDED, d)))
    import fnmatch
    return [n for n in all_ if any(fnmatch.fnmatch(n, a) for a in args)] or ([] if args else all_)


def load(name):
    return json.load(open(os.path.join(SEEDED, name, 'meta.json')))


def save(name, meta):
    json.dump(meta, open(os.path.join(SEEDED, name, 'meta.json'), 'w'), indent=1, sort_keys=True)


def cmd_import(out, cid, wave=''):
    for k in (1, 2, 3):
        src = os.path.join(out, 'm%d' % k)
        if not os.path.exists(os.path.join(src, 'patch.diff')):
            continue
        name = '%s-%sm%d' % (cid, wave, k)
        dst = os.path.join(SEEDED, name)
        os.makedirs(dst, exist_ok=True)
        for f in ('patch.diff', 'demo.py', 'notes.md'):
            if os.path.exists(os.path.join(src, f)):
                shutil.copy(os.path.join(src, f), os.path.join(dst, f))
        notes = open(os.path.join(dst, 'notes.md')).read() if os.path.exists(os.path.join(dst, 'notes.md')) else ''
        meta = {'name': name, 'breaks_property': cid, 'origin': 'independent sub-agent given only the property text and a scratch worktree',
                'needs_to_manifest': notes.strip()[:1500], 'repo_head': sh(['git', '-C', '/repo', 'rev-parse', '--short', 'HEAD']).stdout.strip()}
        if os.path.exists(os.path.join(dst, 'meta.json')):
            old = load(name)
            old.update(meta)
            meta = old
        save(name, meta)
        print('imported', name)


def confirm(name):
    d = os.path.join(SEEDED, name)
    meta = load(name)
    res = {}
    with Scratch(name) as wt:
        env = dict(os.environ, PYTHONPATH=wt + '/src')
        env.pop('PYTEZOS_VERIF', None)
        r0 = sh([PY, os.path.join(d, 'demo.py')], env=env, cwd='/tmp', timeout=900)
        res['demo_on_unchanged_tree_exit'] = r0.returncode
        a = sh(['git', '-C', wt, 'apply', os.path.join(d, 'patch.diff')])
        res['patch_applies'] = a.returncode == 0
        if a.returncode == 0:
            r1 = sh([PY, os.path.join(d, 'demo.py')], env=env, cwd='/tmp', timeout=900)
            res['demo_on_changed_tree_exit'] = r1.returncode
            res['demo_output_on_changed_tree'] = (r1.stdout + r1.stderr)[-400:]
            b = sh(['/tmp/vtools/baseline.sh', wt], timeout=1800) if os.path.exists('/tmp/vtools/baseline.sh') else sh(
                'cd %s && PYTHONPATH=%s/src %s -m pytest -q -p no:cacheprovider --timeout=900 --continue-on-collection-errors 2>&1 | tail -1' % (wt, wt, PY))
            res['repository_tests'] = b.stdout.strip().splitlines()[0] if b.stdout.strip() else b.stderr[-200:]
            res['repository_tests_pass'] = 'missing=0' in b.stdout
    res['confirmed'] = bool(res.get('patch_applies') and res.get('demo_on_unchanged_tree_exit') == 0 and res.get('demo_on_changed_tree_exit', 0) != 0
                            and res.get('repository_tests_pass'))
    meta['confirmation'] = res
    meta['what_i_ran'] = ('tools/seeded.py confirm: scratch worktree of /repo HEAD; demo.py on the unchanged tree (exit 0 expected), git apply patch.diff, '
                          'demo.py again (non-zero expected), the repository test suite compared with BASELINE.json (missing=0 expected)')
    save(name, meta)
    print(name, 'confirmed' if res['confirmed'] else 'NOT CONFIRMED', {k: v for k, v in res.items() if k != 'demo_output_on_changed_tree'})
    return res['confirmed']


def evaluate(name, tier, all_checks=False, seeds=(0,)):
    d = os.path.join(SEEDED, name)
    meta = load(name)
    target = meta['breaks_property']
    checks = [target]
    if all_checks:
        checks = ['C%02d' % i for i in range(1, 34)]
    out = meta.setdefault('detection', {})
    with Scratch(name) as wt:
        a = sh(['git', '-C', wt, 'apply', os.path.join(d, 'patch.diff')])
        if a.returncode:
            print(name, 'patch does not apply')
            return
        for cid in checks:
            for seed in seeds:
                env = dict(os.environ, VERIF_REPO=wt, VERIF_SEED=str(seed))
                t0 = time.time()
                r = sh([PY, '-m', 'rv.check', cid, '--tier', tier], env=env, cwd=V, timeout=7200)
                sigs = sorted({l.strip()[4:] for l in r.stdout.splitlines() if l.strip().startswith('sig=')})
                key = '%s/%s/seed%d' % (cid, tier, seed)
                out[key] = {'exit': r.returncode, 'signatures': sigs[:8], 'wall_s': round(time.time() - t0, 1)}
                print(name, key, 'exit', r.returncode, sigs[:3])
                if r.returncode == 1:
                    break
    # evidence files were rewritten against the changed tree: restore them from git
    sh(['git', '-C', V, 'checkout', '--', 'evidence'])
    for f in os.listdir(os.path.join(V, 'replays')):
        if f.endswith('.json'):
            os.remove(os.path.join(V, 'replays', f))
    meta['detected'] = any(v['exit'] == 1 for k, v in out.items() if k.startswith(target + '/'))
    save(name, meta)


def table():
    rows = []
    for name in names([]):
        m = load(name)
        det = m.get('detection', {})
        hit = [k for k, v in det.items() if v['exit'] == 1 and '@' not in k]
        sig = next((v['signatures'][0] for k, v in det.items() if v['exit'] == 1 and v['signatures'] and '@' not in k), '')
        conf = m.get('confirmation', {}).get('confirmed')
        rows.append('| %s | %s | %s | %s | `%s` |' % (name, m['breaks_property'], 'yes' if conf else 'no', ', '.join(hit) or 'MISSED', sig[:70]))
    print('| seeded change | property | confirmed | caught by | first signature |\n|---|---|---|---|---|')
    print('\n'.join(rows))


if __name__ == '__main__':
    a = sys.argv[1:]
    if not a:
        print(__doc__)
    elif a[0] == 'import':
        cmd_import(a[1], a[2], a[3] if len(a) > 3 else '')
    elif a[0] == 'confirm':
        ok = [confirm(n) for n in names(a[1:])]
    elif a[0] == 'eval':
        tier = 'quick'
        allc = False
        seeds = (0,)
        rest = []
        i = 1
        while i < len(a):
            if a[i] == '--tier':
                tier = a[i + 1]
                i += 2
            elif a[i] == '--seed':
                seeds = (int(a[i + 1]),)
                i += 2
            elif a[i] == '--all-checks':
                allc = True
                i += 1
            else:
                rest.append(a[i])
                i += 1
        for n in names(rest):
            evaluate(n, tier, allc, seeds)
    elif a[0] == 'table':
        table()
