#!/bin/bash
# Runs the repository's pinned test suite with the verification guard OFF and compares with BASELINE.json.
unset PYTEZOS_VERIF
out=${1:-/var/tmp/rv-baseline-$$.xml}
cd /repo && /venv/bin/python -m pytest -q -p no:cacheprovider --timeout=900 --continue-on-collection-errors --junitxml=$out "${@:2}" >/var/tmp/rv-baseline-$$.log 2>&1
/venv/bin/python - "$out" <<'PY'
import json, sys, xml.etree.ElementTree as ET
base = json.load(open('/root/.vp/BASELINE.json'))
want = set(base['stable_pass'])
got = set()
for tc in ET.parse(sys.argv[1]).getroot().iter('testcase'):
    ok = not any(c.tag in ('failure', 'error', 'skipped') for c in tc)
    if ok:
        got.add('%s::%s' % (tc.get('classname'), tc.get('name')))
missing = sorted(want - got)
print('baseline stable_pass=%d passed_now=%d missing=%d' % (len(want), len(want & got), len(missing)))
for m in missing[:20]:
    print('  MISSING', m)
sys.exit(1 if missing else 0)
PY
rc=$?
rm -f $out /var/tmp/rv-baseline-$$.log
exit $rc
