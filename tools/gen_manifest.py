#!/usr/bin/env python3
"""Regenerates /verif/MANIFEST.json from the table below; a property is claimed only when its check module exists."""
import json
import os
import subprocess

V = os.path.dirname(os.path.dirname(os.path.abspath(__file__)))
PY = '/venv/bin/python'

# id: (level, technique, text, note)
T = {
 'C01': ('exploration', 'lock-step differential trace monitor: instruction hook on the real interpreter vs independent reference interpreter',
         'Generated well-typed programs (instruction sweeps over boundary pools + randomly scheduled compiled programs) are run by the real interpreter under an execute() hook; every post-instruction stack, the final stack and the FAILWITH value are compared with an independent reference interpreter calibrated on the Octez regression vectors; the 20 mainnet scripts and 82 recorded calls shipped with the repository tests are run the same way through Interpreter.run_code (operation-building instructions adopted from the hook trace), and a quarter of the programs run after a failed cell on the same interpreter. Held on the programs driven, nothing more.',
         'Reference interpreter (rv/model/interp.py) written from the Michelson reference and calibrated against the Octez vectors shipped in the repository tests; CREATE_CONTRACT, views, sapling, chests are outside the generator.'),
 'C02': ('exploration', 'deep runtime-type conformance walker at the instruction hook vs statically derived types',
         'After every hooked instruction each live stack slot is walked structurally and its runtime class prim/args at every depth is compared with the static type derived by the reference type tracker.',
         'Static types come from the reference interpreter\'s own type tracking; same generator bounds as C01; every live object that was on the stack is also walked for self-consistency (declared component types vs components held), real contracts included.'),
 'C03': ('exploration', 'comparison monitor + sortedness invariant at set/map construction, pools exhaustive (all pairs, all triples)',
         'COMPARE through the REPL on all ordered pairs of adversarial value pools of every comparable type shape, checked against an independent implementation of the Michelson order and against the total-order laws on all triples; set/map literals and UPDATE sequences checked for order and dedup.',
         'Order model rv/model/order.py from the Michelson specification; P-256 keys differing only in parity byte are held to the order laws only.'),
 'C04': ('exploration', 'codec agreement monitor: real pack/unpack vs independent typed serializer and strict binary decoder, plus structural mutants',
         'pack() bytes compared with an independent optimized serializer + binary encoder; unpack(pack(v)) == v; PACK/UNPACK instructions agree with the methods; structurally invalid mutants (truncation, extension, non-minimal ints, bad tags, inconsistent lengths) must give None.',
         'Model codec rv/model/micheline_bin.py + pack.py; arbitrary byte flips are only judged when the strict model decoder decides them.'),
 'C05': ('exploration', 'round-trip + strict-decoder agreement monitor on forge_micheline/unforge_micheline',
         'Random Micheline trees over all protocol primitives: forge equals the independent encoder, unforge(forge(e)) equals the normal form, and on truncated/extended/mutated byte strings the real decoder must accept exactly what the strict independent decoder accepts (and decode to the same tree).',
         'Independent codec in rv/model/micheline_bin.py with its own copy of the protocol primitive table; negative zero (0x40) is a documented don\'t-care.'),
 'C06': ('exploration', 'operation codec agreement: real forging vs independent encoder and decoder of the operation binary format',
         'Generated operation groups over all C06 kinds are forged by pytezos and compared byte-for-byte with an independent encoder; the bytes are decoded by an independent decoder and must give back branch and contents; distinct groups must forge to distinct bytes.',
         'rv/model/opbin.py written from the Tezos encoding documentation.'),
 'C07': ('exploration', 'sign/verify monitors against a second crypto stack (OpenSSL via cryptography; py_ecc low-level for BLS)',
         'Fresh signatures from the real Key.sign must verify under the real verify and under an independent verifier; altered message/signature/key must be rejected; CHECK_SIGNATURE must agree.',
         'OpenSSL (cryptography) for Ed25519/secp256k1/P-256; for BLS the reference uses py_ecc primitives (same library, different layer).'),
 'C08': ('exploration', 'derivation/import/export monitors against independent public-key derivation, Blake2b/base58 and BIP-39 models',
         'Public keys and key hashes compared with independent derivations; secret-key export/import (plain and encrypted) round trips; mnemonic acceptance compared with an own BIP-39 checksum model over exhaustive last-word sweeps; derivation determinism.',
         'OpenSSL for curve arithmetic, hashlib for hashing/PBKDF2, own base58check and BIP-39 wordlist checksum.'),
 'C09': ('exploration', 'postcondition monitor on base58_encode/decode against an own base58check and a golden prefix table',
         'For all 43 kinds: extremal and random payloads encode with the documented prefix/length and decode back; corrupted strings (checksum, character, truncation, extension, foreign binary prefix under the same human prefix) must be rejected; no string decodes under two kinds.',
         'Golden copy of the Tezos prefix table in rv/model/base58.py; monotonicity of base58 bounds the human prefix for the whole payload space via the two extremes.'),
 'C10': ('exploration', 'round-trip monitor through optimized bytes with independent byte model',
         'Every address/key/key_hash/signature/chain_id kind with boundary digests and entrypoints converted to optimized form and read back; bytes compared with the model; kind confusion detected.',
         'Optimized layouts from rv/model/pack.py.'),
 'C11': ('exploration', 'three-mode Micheline round-trip monitor with independent rendering model',
         'Typed values rendered as readable/optimized/legacy-optimized Micheline and parsed back at the same type must be equal; renderings compared with the independent model (comb layouts, timestamps as integers outside years 1000-9999).',
         'rv/model/pack.py rendering rules.'),
 'C12': ('exploration', 'inverse-law monitor on Python-object conversion',
         'from_python_object(to_python_object(v)) == v and the contract-level encode/decode are mutual inverses over generated storage/parameter types; field names unique and stable across constructions.',
         'Intrinsic oracle (inverse laws) plus a small naming model.'),
 'C13': ('exploration', 'entrypoint model + inverse-law monitor, annotation placements exhaustive on small union trees',
         'list_entrypoints compared with a model of the Tezos entrypoint rule for every annotation placement on union trees up to a leaf bound; to_parameters/from_parameters round trips in both directions.',
         'Entrypoint model written from the protocol rule (annotated or-branches + root).'),
 'C14': ('exploration', 'history monitor: set/map operation sequences lock-step against a sorted-dictionary model + sortedness invariant at construction',
         'Random and exhaustive short histories of UPDATE/GET_AND_UPDATE/MEM/GET/SIZE/ITER/MAP over small key universes of every comparable shape, each observation and each constructed set/map compared with a model sorted dictionary.',
         'Order model as C03.'),
 'C15': ('exploration', 'big-map history monitor against a layered dictionary with a simulated node backing on-chain entries',
         'Operation sequences over small key universes with every on-chain/local split; observations, the final lazy diff applied to the on-chain content, and the key hashes are compared with the model.',
         'Script-expression hashes from the independent packer; combs of >=4 elements as keys are not decided.'),
 'C16': ('exploration', 'arithmetic monitor: every operand type combination over all pairs of a boundary pool against big-int formulas',
         'All listed arithmetic/logic/conversion instructions on all pairs of boundary values, compared with Python big-int reference formulas including failure and None conditions.',
         'Reference formulas in rv/model/interp.py (Appendix A of DESIGN.md).'),
 'C17': ('exploration', 'metamorphic monitor: the same program under random re-annotations of its type arguments',
         'Programs biased to comb access and PACK are executed with several random re-annotations; results, failures and packed bytes must be identical.',
         'Two runs of the real code; the annotation-blind reference model is a third opinion.'),
 'C18': ('exploration', 'inverse-law monitor on micheline_to_michelson / michelson_to_micheline in both layouts',
         'Grammar-directed Michelson-shaped expressions are formatted inline and multi-line and parsed back; must equal the original.',
         'Intrinsic oracle.'),
 'C19': ('exploration', 'macro monitor: parsed expansion executed on tagged stacks vs direct model of the macro',
         'Every PAIR-tree macro name up to a leaf bound, every C[AD]+R path, SET_/MAP_ variants, compare/if/assert families, DII+P, DUU+P executed by the real interpreter and compared with the model definition.',
         'Macro definitions written from the Michelson reference.'),
 'C20': ('exploration', 'conservation checker over the instruction-hook log + lock-step ticket semantics',
         'Ticket programs: per (ticketer, contents) totals never grow except through TICKET, no zero-amount ticket, no duplication, SPLIT/JOIN None-rules as specified.',
         'Ticket objects found by structural walk of live stacks.'),
 'C21': ('exploration', 'BLS monitor against py_ecc raw group operations and group laws on observed results',
         'ADD/NEG/MUL on G1/G2/Fr including infinity compared with raw curve arithmetic; group laws; encoding round trips; PAIRING_CHECK compared with the pairing product.',
         'py_ecc low-level curve API is trusted.'),
 'C22': ('fault_enumeration', 'failing-cell differential with failpoints at every instruction/stack-operation position',
         'Session with failing cells vs the same session without them: later results, big-map ids, lazy diffs and final context must be identical; failures injected at every position of the failing cell.',
         'Oracle is the same code without the failing cell.'),
 'C23': ('exploration', 'sign/hash monitor on operation groups against independent verifier and hash model',
         'sign() succeeds for tz1-tz4, signature verifies over the watermarked bytes with the independent verifier, hash() equals model.',
         'As C07.'),
 'C24': ('exploration', 'fee monitor: filled/autofilled groups against the default mempool minimal-fee formula, simulated node',
         'Groups produced by fill/autofill against a simulated node are checked against 100 mutez + 1/byte + 0.1/gas in nanotez with the real signed size.',
         'Simulated node returns chosen consumed gas / storage.'),
 'C25': ('exploration', 'client-history monitor: offline checker of the simulated node\'s injection log',
         'Call sequences of fill/autofill/sign/inject/failed-inject against a node whose counter and mempool evolve; each injected group must carry the next counters.',
         'Counters decoded from injected bytes by the independent decoder.'),
 'C26': ('fault_enumeration', 'ordering checker over the request/sleep log of a scripted transport, response sequences exhaustive',
         'Every response sequence (up to six transient responses of each kind, then every terminal kind) is played to RpcNode.request/get/post through a scripted transport with a virtual clock; the recorded request/sleep log is checked: re-send exactly after transient server errors, at most six attempts, non-decreasing delays <= 2 s, first success returned, last error raised.',
         'Responses are real requests.Response objects; ambiguous responses (protocol error that also carries the prevalidator marker, mixed kinds) are outside the alphabet.'),
 'C27': ('exploration', 'postcondition monitor on RpcError.from_errors against the stated lookup order over the live registry',
         'Every identifier of the four stated forms built from all registered keys, their components and unregistered names; raised class must be the one the stated order selects; error lists of length 1-3.',
         'Identifiers with more than four components (category ambiguous) are not generated.'),
 'C28': ('fault_enumeration', 'scripted transport records the target node of every request; outcome sequences exhaustive',
         'All outcome sequences (success, 404, 401, 5xx, connection error, transient-then-success) up to a length bound for 1-4 nodes; request i must go to node i mod n.',
         'Only the first HTTP request of an API call is judged; retries inside a call are counted, not judged.'),
 'C29': ('exploration', 'reference-scan monitor with hooked get callback; small ranges exhaustive',
         'All ranges up to a length bound with every change-point subset and every step, plus random long ranges; reported changes must equal the direct scan, in increasing order; probes must stay inside the range.',
         'Histories never return to an earlier value (precondition of the property).'),
 'C30': ('exploration', 'inverse-law monitor on make_patch/apply_patch and Protocol.diff/patch; small text pairs exhaustive',
         'All pairs of short texts over a small line alphabet and all context sizes; apply and revert must reproduce the texts; protocol-level diff/patch round trip.',
         'Intrinsic oracle.'),
 'C31': ('exploration', 'postcondition monitor against an own padded Merkle tree',
         'Every list length 0..130 and adversarial hash values; the three hashes compared with the model Merkle root.',
         'Model in rv/model/merkle.py: Blake2b-256 leaves, padding with copies of the last leaf to a power of two.'),
 'C32': ('exploration', 'acceptance monitor on ViewSection.match against the rule as stated; small code trees exhaustive',
         'Names over an extended character set and lengths 0..40; code trees placing restricted instructions at every depth, inside and outside lambda bodies.',
         'Rule implemented literally from the property.'),
 'C33': ('exploration', 'substitution monitor on resolve_global_constants against an independent substitution + hash model',
         'Scripts with references in type/code/data positions over acyclic constant DAGs, unknown hashes must raise.',
         'Expression hashes from the independent packer.'),
}

NOT_BUILT = 'check not built yet in this revision (work in progress, see DESIGN.md §9)'


def main():
    checks, na = [], []
    for pid in sorted(T):
        level, tech, text, note = T[pid]
        if os.path.exists(os.path.join(V, 'rv', 'checks', pid.lower() + '.py')):
            checks.append({
                'property_id': pid,
                'quick_cmd': '%s -m rv.check %s --tier quick' % (PY, pid),
                'thorough_cmd': '%s -m rv.check %s --tier thorough' % (PY, pid),
                'evidence_file': '/verif/evidence/%s.json' % pid,
                'replay_cmd_template': '%s -m rv.check %s --replay {path}' % (PY, pid),
                'engine': 'rv',
                'level_claimed': {'category': level, 'text': text, 'design_ref': 'DESIGN.md §7 ' + pid},
                'level_note': note,
                'technique': tech,
            })
        else:
            na.append({'property_id': pid, 'reason': NOT_BUILT})
    commits = []
    m = {
        'version': 1,
        'setup_cmd': '%s -m rv.selftest.setup' % PY,
        'hooks': {
            'guard': 'PYTEZOS_VERIF',
            'enable': 'no build step: rv.check sets PYTEZOS_VERIF=1, puts /repo/src first on sys.path and installs all monitors from the harness by setattr on the imported pytezos classes/functions; pytezos itself contains no hook code',
            'baseline_off_cmd': '/verif/tools/baseline_off.sh',
            'source_commits': commits,
            'add_only': True,
        },
        'engines': [{'name': 'rv', 'path': '/verif/rv', 'serves_properties': [c['property_id'] for c in checks],
                     'kind_free_text': 'runtime monitors (hooks on the real pytezos code), independent reference models, offline log checkers, fault injection at hooks'}],
        'checks': checks,
        'not_applicable': na,
        'notes': 'Exit codes: 0 held on everything explored (possibly KNOWN-FINDING lines), 1 VIOLATION, 2 INCONCLUSIVE (monitor never reached). Known findings and repaired defects: /verif/KNOWN_FINDINGS.txt.',
    }
    with open(os.path.join(V, 'MANIFEST.json'), 'w') as f:
        json.dump(m, f, indent=1)
    print('MANIFEST: %d checks, %d not claimed' % (len(checks), len(na)))


if __name__ == '__main__':
    main()
