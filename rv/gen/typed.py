"""Generators of model types and model values (stdlib only; uses rv.model)."""
from rv.model import order as O
from rv.model import types as T

COMPARABLE_LEAVES = ['unit', 'bool', 'int', 'nat', 'string', 'bytes', 'mutez', 'timestamp', 'key_hash', 'key', 'signature',
                     'address', 'chain_id']
OTHER_LEAVES = ['bls12_381_fr', 'bls12_381_g1', 'bls12_381_g2']


def gen_type(rng, depth, want='packable', leaves=None):
    """want: comparable | packable (also pushable/storable/passable here, no contract/operation/big_map/ticket) |
    storable (may contain big_map at permitted positions: not generated here)."""
    leaves = leaves or COMPARABLE_LEAVES
    if depth <= 0 or rng.random() < 0.3:
        pool = leaves if want == 'comparable' else leaves + OTHER_LEAVES * (1 if rng.random() < 0.15 else 0)
        return (rng.choice(pool),)
    sub = lambda w=want: gen_type(rng, depth - 1, w, leaves)
    if want == 'comparable':
        k = rng.choice(['pair', 'pair', 'pair3', 'option', 'or'])
    else:
        k = rng.choice(['pair', 'pair', 'pair3', 'pair4', 'pair5', 'option', 'or', 'list', 'set', 'map', 'lambda'])
    if k == 'pair':
        return T.pair(sub(), sub())
    if k == 'pair3':
        return T.pair(sub(), sub(), sub())
    if k == 'pair4':
        return T.pair(sub(), sub(), sub(), sub())
    if k == 'pair5':
        return T.pair(*[gen_type(rng, max(0, depth - 2), want, leaves) for _ in range(rng.choice([5, 6]))])
    if k == 'option':
        return T.option(sub())
    if k == 'or':
        return T.or_(sub(), sub())
    if k == 'list':
        return T.list_(sub())
    if k == 'set':
        return T.set_(sub('comparable'))
    if k == 'map':
        return T.map_(sub('comparable'), sub())
    if k == 'lambda':
        return T.lambda_(T.UNIT, T.UNIT)
    raise KeyError(k)


def all_comparable_types(depth, leaves=None):
    """Every comparable type shape up to the given depth (for exhaustive C03 sweeps)."""
    leaves = leaves or COMPARABLE_LEAVES
    cur = [(l,) for l in leaves]
    out = list(cur)
    for _ in range(depth):
        nxt = []
        for a in cur:
            nxt.append(T.option(a))
        for a in cur:
            for b in cur:
                nxt.append(T.pair(a, b))
                nxt.append(T.or_(a, b))
        out += nxt
        cur = nxt
    return out


# ---- values ----------------------------------------------------------------------------------------------------
INT_POOL = [0, 1, -1, 2, -2, 63, 64, -64, 127, 128, -128, 255, 256, -256, 2 ** 15, 2 ** 31 - 1, 2 ** 31, 2 ** 32, 2 ** 62,
            2 ** 63 - 1, 2 ** 63, -(2 ** 63), 2 ** 64 - 1, 2 ** 64, 2 ** 70, -(2 ** 70), 2 ** 255, 2 ** 256 - 1, 2 ** 256,
            -(2 ** 256), 2 ** 1000 + 1]
TS_POOL = [0, 1, -1, 1_700_000_000, -62135596800, -62135596801, -30610224000, -30610224001, 253402300799, 253402300800,
           -(10 ** 12), 10 ** 12, 2 ** 63, -(2 ** 63) - 1, 946684800]
STR_POOL = ['', 'a', 'b', 'ab', 'aa', 'abc', 'abd', 'B', 'Z', 'a b', 'hello world', '0', '~', ' ', 'a\nb', 'a"b', 'a\\b']
BYTES_POOL = [b'', b'\x00', b'\x00\x00', b'\x01', b'\xff', b'\x00\xff', b'\x7f', b'\x80', b'ab', b'abc', b'\xff' * 33, b'\x05\x00']


def rbytes(rng, n):
    return bytes(rng.getrandbits(8) for _ in range(n))


def digest20(rng):
    r = rng.random()
    if r < 0.25:
        return bytes([rng.choice([0, 1, 2, 3, 4])]) + rbytes(rng, 19)
    if r < 0.4:
        return rbytes(rng, 19) + b'\x00'
    if r < 0.45:
        return b'\x00' * 20
    if r < 0.5:
        return b'\xff' * 20
    return rbytes(rng, 20)


def gen_key_hash(rng):
    return bytes([rng.choice([0, 1, 2, 3])]) + digest20(rng)


def gen_key(rng):
    tag = rng.choice([0, 1, 2, 3])
    if tag == 0:
        return b'\x00' + rbytes(rng, 32)
    if tag in (1, 2):
        return bytes([tag, rng.choice([2, 3])]) + rbytes(rng, 32)
    return b'\x03' + rbytes(rng, 48)


def gen_signature(rng):
    r = rng.random()
    if r < 0.15:
        return rbytes(rng, 96)
    if r < 0.25:
        return b'\x00' * 64
    if r < 0.3:
        return b'\xff' * 64
    return rbytes(rng, 64)


ENTRYPOINTS = ['', '', '', 'a', 'do', 'default_', 'Default', 'transfer', 'x' * 31, 'set_delegate', 'root', 'A_b.c%d'[:5], 'set_default', 'defaultdefault', 'xdefault']


def gen_addr22(rng, kinds=(0, 1, 3)):
    k = rng.choice(kinds)
    if k == 0:
        return bytes([0, rng.choice([0, 1, 2, 3])]) + digest20(rng)
    return bytes([k]) + digest20(rng) + b'\x00'


def gen_address(rng, kinds=(0, 1, 3)):
    return (gen_addr22(rng, kinds), rng.choice(ENTRYPOINTS))


def gen_value(rng, t, size=3):
    p = t[0]
    if p == 'unit':
        return ()
    if p == 'bool':
        return rng.random() < 0.5
    if p == 'int':
        return rng.choice(INT_POOL) if rng.random() < 0.7 else rng.randint(-10 ** 6, 10 ** 6)
    if p == 'nat':
        return abs(rng.choice(INT_POOL)) if rng.random() < 0.7 else rng.randint(0, 10 ** 6)
    if p == 'mutez':
        return rng.choice([0, 1, 2, 1000000, 2 ** 31, 2 ** 62, 2 ** 63 - 1, rng.randint(0, 10 ** 9)])
    if p == 'timestamp':
        return rng.choice(TS_POOL) if rng.random() < 0.6 else rng.randint(-2 ** 40, 2 ** 40)
    if p == 'string':
        return rng.choice(STR_POOL)
    if p == 'bytes':
        return rng.choice(BYTES_POOL) if rng.random() < 0.7 else rbytes(rng, rng.randint(0, 40))
    if p == 'chain_id':
        return rng.choice([b'\x00' * 4, b'\xff' * 4, rbytes(rng, 4)])
    if p == 'key_hash':
        return gen_key_hash(rng)
    if p == 'key':
        return gen_key(rng)
    if p == 'signature':
        return gen_signature(rng)
    if p == 'address':
        return gen_address(rng)
    if p == 'bls12_381_fr':
        return rng.choice([0, 1, O.BLS_R - 1, rng.getrandbits(250)])
    if p == 'bls12_381_g1':
        return G1_POINTS[rng.randrange(len(G1_POINTS))]
    if p == 'bls12_381_g2':
        return G2_POINTS[rng.randrange(len(G2_POINTS))]
    if p == 'pair':
        return (gen_value(rng, t[1], size), gen_value(rng, t[2], size))
    if p == 'option':
        return None if rng.random() < 0.3 else ('Some', gen_value(rng, t[1], size))
    if p == 'or':
        return ('L', gen_value(rng, t[1], size)) if rng.random() < 0.5 else ('R', gen_value(rng, t[2], size))
    if p == 'list':
        return [gen_value(rng, t[1], size - 1) for _ in range(rng.randint(0, max(0, size)))]
    if p == 'set':
        return O.sort_unique(t[1], [gen_value(rng, t[1], size - 1) for _ in range(rng.randint(0, max(0, size)))])
    if p in ('map', 'big_map'):
        keys = O.sort_unique(t[1], [gen_value(rng, t[1], size - 1) for _ in range(rng.randint(0, max(0, size)))])
        return [(k, gen_value(rng, t[2], size - 1)) for k in keys]
    if p == 'lambda':
        return rng.choice([[], [{'prim': 'DROP'}, {'prim': 'UNIT'}], [{'prim': 'DUP'}, {'prim': 'DROP'}]])
    raise KeyError(p)


# A few valid uncompressed BLS12-381 points (generator multiples), filled lazily by checks that need real points;
# for data round trips any 96/192-byte string is a value of the type.
G1_POINTS = [bytes([0x40]) + b'\x00' * 95, bytes(range(96))]
G2_POINTS = [bytes([0x40]) + b'\x00' * 191, bytes(i % 256 for i in range(192))]


def comparable_pool(rng, t, n=6):
    """Adversarial pool for comparisons: equal prefixes, first component decides against the second, etc."""
    p = t[0]
    if p == 'unit':
        return [()]
    if p == 'bool':
        return [False, True]
    if p == 'int':
        return [-(2 ** 64), -2, -1, 0, 1, 2, 255, 256, 2 ** 64]
    if p == 'nat':
        return [0, 1, 2, 9, 10, 255, 256, 2 ** 64]
    if p == 'mutez':
        return [0, 1, 9, 10, 2 ** 63 - 1]
    if p == 'timestamp':
        return [-(10 ** 12), -1, 0, 1, 946684800, 10 ** 12]
    if p == 'string':
        return ['', 'A', 'Z', 'a', 'aa', 'ab', 'b', 'a b', '~']
    if p == 'bytes':
        return [b'', b'\x00', b'\x00\x00', b'\x00\x01', b'\x01', b'\x7f', b'\x80', b'\xff', b'\xff\x00']
    if p == 'chain_id':
        return [b'\x00' * 4, b'\x00\x00\x00\x01', b'\x7f\xff\xff\xff', b'\x80\x00\x00\x00', b'\xff' * 4]
    if p == 'key_hash':
        lo, hi, mid = b'\x00' * 20, b'\xff' * 20, b'\x80' + b'\x00' * 19
        return [bytes([tag]) + d for tag in range(4) for d in (lo, mid, hi)]
    if p == 'key':
        x1, x2 = b'\x11' * 32, b'\xee' * 32
        return [b'\x00' + x1, b'\x00' + x2, b'\x01\x02' + x1, b'\x01\x03' + x1, b'\x01\x02' + x2, b'\x02\x02' + x1,
                b'\x02\x03' + x1, b'\x02\x02' + x2, b'\x03' + b'\x11' * 48, b'\x03' + b'\xee' * 48]
    if p == 'signature':
        return [b'\x00' * 64, b'\x00' * 63 + b'\x01', b'\x7f' + b'\x00' * 63, b'\x80' + b'\x00' * 63, b'\xff' * 64,
                b'\x00' * 96, b'\xff' * 96]
    if p == 'address':
        lo, hi = b'\x00' * 20, b'\xff' * 20
        addrs = [bytes([0, tag]) + d for tag in range(4) for d in (lo, hi)]
        addrs += [bytes([k]) + d + b'\x00' for k in (1, 3) for d in (lo, hi)]
        out = [(a, '') for a in addrs]
        out += [(addrs[0], 'a'), (addrs[0], 'b'), (addrs[0], 'Zz'), (addrs[0], 'e'), (addrs[8], 'a'), (addrs[-1], 'x' * 31), (addrs[8], 'z')]
        return out
    if p == 'option':
        inner = comparable_pool(rng, t[1], n)
        return [None] + [('Some', x) for x in _thin(rng, inner, n)]
    if p == 'or':
        l, r = comparable_pool(rng, t[1], n), comparable_pool(rng, t[2], n)
        return [('L', x) for x in _thin(rng, l, max(2, n // 2))] + [('R', x) for x in _thin(rng, r, max(2, n // 2))]
    if p == 'pair':
        l, r = _thin(rng, comparable_pool(rng, t[1], n), 3), _thin(rng, comparable_pool(rng, t[2], n), 3)
        return [(a, b) for a in l for b in r]
    raise KeyError(p)


def _thin(rng, pool, n):
    if len(pool) <= n:
        return pool
    idx = sorted(rng.sample(range(len(pool)), n))
    return [pool[i] for i in idx]


def large_values(rng, quick=True):
    """Yield (label, type, value): collections of 9, 10, 11 ... hundreds of elements (where sorting by text and sorting by value
    part ways), wide combs, deep nestings, strings and byte strings past the 2**8 / 2**16 length thresholds."""
    ns = [9, 10, 11, 12, 100, 127, 128, 255, 256, 257] + ([] if quick else [1000, 5000])
    for n in ns:
        nats = list(range(n))
        ints = list(range(-(n // 2), n - n // 2))
        strs = sorted({str(i) for i in range(n)} | {'k%d' % i for i in range(n // 2)})
        byts = O.sort_unique(T.BYTES, [i.to_bytes(2, 'big').lstrip(b'\x00') for i in range(n)])
        yield 'list-%d' % n, T.list_(T.NAT), [rng.choice(INT_POOL[:12]) % 997 for _ in range(n)]
        yield 'list-of-pairs-%d' % n, T.list_(T.pair(T.NAT, T.STRING)), [(i, str(i)) for i in range(n)]
        yield 'set-nat-%d' % n, T.set_(T.NAT), nats
        yield 'set-int-%d' % n, T.set_(T.INT), ints
        yield 'set-string-%d' % n, T.set_(T.STRING), O.sort_unique(T.STRING, strs)
        yield 'set-bytes-%d' % n, T.set_(T.BYTES), byts
        yield 'map-nat-%d' % n, T.map_(T.NAT, T.STRING), [(i, 'v%d' % i) for i in nats]
        yield 'map-int-%d' % n, T.map_(T.INT, T.option(T.NAT)), [(i, None if i % 3 == 0 else ('Some', abs(i))) for i in ints]
        yield 'map-string-%d' % n, T.map_(T.STRING, T.NAT), [(k, j) for j, k in enumerate(O.sort_unique(T.STRING, strs))]
        yield 'map-pair-%d' % n, T.map_(T.pair(T.NAT, T.INT), T.BOOL), [((i // 10, i % 10 - 5), i % 2 == 0) for i in range(n)]
        yield 'map-of-maps-%d' % n, T.map_(T.NAT, T.map_(T.STRING, T.NAT)), [(i, [(str(i), i)] if i % 2 else []) for i in range(min(n, 128))]
    for w in (2, 3, 4, 5, 8, 9, 10, 11, 16, 17, 33):
        yield 'comb-%d' % w, T.pair(*([T.NAT, T.STRING, T.INT, T.BYTES] * w)[:w]), _right([[i, 's%d' % i, -i, bytes([i])][i % 4] for i in range(w)])
        yield 'comb-of-options-%d' % w, T.pair(*[T.option(T.NAT)] * w), _right([None if i % 2 else ('Some', i) for i in range(w)])
    for d in (2, 3, 9, 10, 11, 30):
        t, v = T.NAT, d
        for k in range(d):
            if k % 3 == 0:
                t, v = T.or_(t, T.STRING), ('L', v)
            elif k % 3 == 1:
                t, v = T.list_(t), [v]
            else:
                t, v = T.pair(T.NAT, t), (k, v)
        yield 'deep-%d' % d, t, v
        t, v = T.STRING, 'leaf'
        for k in range(d):
            t, v = (T.or_(T.NAT, t), ('R', v)) if k % 2 else (T.or_(t, T.NAT), ('L', v))
        yield 'deep-or-%d' % d, t, v
    for n in ([255, 256, 257, 4096, 65535, 65536, 65537] if quick else [127, 128, 255, 256, 257, 1023, 1024, 4096, 16384, 65535, 65536, 65537, 200001]):
        yield 'string-%d' % n, T.STRING, ''.join(rng.choice('abc XYZ019') for _ in range(n))
        yield 'bytes-%d' % n, T.BYTES, rbytes(rng, n)
        yield 'pair-of-long-%d' % n, T.pair(T.STRING, T.BYTES), ('x' * n, b'\x00' * n)
    for bits in (64, 65, 127, 128, 256, 512, 1024, 4095, 8192, 13000):
        yield 'int-%d' % bits, T.pair(T.INT, T.NAT), (-(2 ** bits) + 1, 2 ** bits)


def _right(vs):
    return vs[0] if len(vs) == 1 else (vs[0], _right(vs[1:]))
