"""Real-world workload: the mainnet scripts and recorded operations shipped with the repository's own tests
(tests/contract_tests/<contract>/__script__.json and <entrypoint>.json). The repository's tests only decode them and
compare pytezos with itself; here they are inputs for the independent models (typed reader, renderer, packer, entrypoint
rule, codec), so every monitor also sees values with the shapes real contracts use: deep annotated combs, or-trees with
dozens of entrypoints, lambdas, maps of records, optimized address/key spellings.

Everything is read from $VERIF_REPO (the tree under check). Stdlib + rv.model only."""
import json
import os

from rv.model import pack as P
from rv.model import types as T

_CACHE = {}


def root():
    return os.path.join(os.environ.get('VERIF_REPO', '/repo'), 'tests', 'contract_tests')


def contracts():
    """-> [{'name', 'code', 'parameter', 'storage', 'operations': [{'name', 'parameters', 'storage', 'lazy_storage_diff'}]}]"""
    if 'contracts' in _CACHE:
        return _CACHE['contracts']
    out = []
    base = root()
    for name in sorted(os.listdir(base)) if os.path.isdir(base) else []:
        d = os.path.join(base, name)
        f = os.path.join(d, '__script__.json')
        if not os.path.isfile(f):
            continue
        try:
            script = json.load(open(f))
            code = script['code']
            sect = {s['prim']: s for s in code if isinstance(s, dict) and 'prim' in s}
            c = {'name': name, 'code': code, 'script_storage': script.get('storage'), 'parameter': sect['parameter']['args'][0],
                 'storage': sect['storage']['args'][0], 'operations': []}
        except (ValueError, KeyError, TypeError):
            continue
        for g in sorted(os.listdir(d)):
            if not g.endswith('.json') or g.startswith('__'):
                continue
            try:
                op = json.load(open(os.path.join(d, g)))
            except ValueError:
                continue
            if isinstance(op, dict) and 'parameters' in op:
                c['operations'].append({'name': g[:-5], 'parameters': op['parameters'], 'storage': op.get('storage'),
                                        'lazy_storage_diff': op.get('lazy_storage_diff') or []})
        out.append(c)
    _CACHE['contracts'] = out
    return out


def strip(e):
    """Type expression without annotations."""
    if isinstance(e, list):
        return [strip(x) for x in e]
    o = {'prim': e['prim']}
    if e.get('args'):
        o['args'] = [strip(a) for a in e['args']]
    return o


def field(e):
    for a in e.get('annots', []) if isinstance(e, dict) else []:
        if a.startswith('%') and len(a) > 1:
            return a[1:]
    return None


def entrypoints(param):
    """Model of the Tezos entrypoint rule on a parameter type expression:
    name -> (path of L/R letters, type expr); annotated nodes reachable through `or` nodes, plus the root."""
    eps = {}

    def go(e, path):
        if path and field(e) and field(e) not in eps:
            eps[field(e)] = (path, e)
        if e.get('prim') == 'or':
            go(e['args'][0], path + 'L')
            go(e['args'][1], path + 'R')

    go(param, '')
    rootname = field(param) or ('root' if 'default' in eps else 'default')
    if rootname not in eps:
        eps[rootname] = ('', param)
    return eps


def wrap(v, path):
    for c in reversed(path):
        v = {'prim': 'Left' if c == 'L' else 'Right', 'args': [v]}
    return v


def annot_fn(texpr):
    """annotation function for T.to_micheline from an annotated binary-nested type expression; None when the expression
    uses n-ary pairs with annotations that binary nesting could not carry (then the plain expression is used as is)."""
    table = {}

    def go(e, path):
        if e.get('annots'):
            table[path] = list(e['annots'])
        args = e.get('args') or []
        if e['prim'] == 'pair' and len(args) > 2:
            go(args[0], path + (0,))
            go({'prim': 'pair', 'args': args[1:]}, path + (1,))
            return
        for i, a in enumerate(args):
            go(a, path + (i,))

    go(texpr, ())
    return lambda path, t: table.get(path)


def typed_values(max_nodes=4000):
    """-> [(label, type expr (annotated), model type, model value, source)] for every operation parameter (at its entrypoint's
    type) and every sub-value of recorded storages that the independent typed reader accepts (storages hold big-map ids where
    the type says big_map: those nodes are skipped and their siblings are taken separately)."""
    if 'typed' in _CACHE:
        return _CACHE['typed']
    out = []
    seen = set()

    def add(label, texpr, value, source):
        try:
            t = T.from_micheline(strip(texpr))
            v = P.parse(value, t)
        except (P.ParseError, P.Uncertain, KeyError, TypeError, ValueError, IndexError, AttributeError):
            return False
        key = (T.show(t), repr(v))
        if key not in seen:
            seen.add(key)
            out.append((label, texpr, t, v, source))
        return True

    def pieces(label, texpr, value, source, depth=0):
        if add(label, texpr, value, source) or depth > 12:
            return
        prim = texpr.get('prim')
        args = texpr.get('args') or []
        if prim == 'pair':
            if len(args) > 2:
                texpr = {'prim': 'pair', 'args': [args[0], {'prim': 'pair', 'args': args[1:]}]}
                args = texpr['args']
            vals = value if isinstance(value, list) else (value.get('args') if isinstance(value, dict) and value.get('prim') == 'Pair' else None)
            if not vals or len(vals) < 2:
                return
            pieces(label + '.0', args[0], vals[0], source, depth + 1)
            rest = vals[1] if len(vals) == 2 else vals[1:]
            pieces(label + '.1', args[1], rest, source, depth + 1)
        elif prim == 'option' and isinstance(value, dict) and value.get('prim') == 'Some':
            pieces(label + '.some', args[0], value['args'][0], source, depth + 1)
        elif prim == 'or' and isinstance(value, dict) and value.get('prim') in ('Left', 'Right'):
            pieces(label + '.' + value['prim'], args[0 if value['prim'] == 'Left' else 1], value['args'][0], source, depth + 1)

    for c in contracts():
        eps = entrypoints(c['parameter'])
        for op in c['operations']:
            p = op['parameters']
            ep = p.get('entrypoint', 'default')
            if ep in eps:
                pieces('%s/%s/parameter' % (c['name'], op['name']), eps[ep][1], p.get('value', {'prim': 'Unit'}), 'parameter')
            if op['storage'] is not None:
                pieces('%s/%s/storage' % (c['name'], op['name']), c['storage'], op['storage'], 'storage')
            for d in op['lazy_storage_diff']:
                if d.get('kind') != 'big_map':
                    continue
                kt, vt = None, None
                diff = d.get('diff', {})
                if diff.get('action') == 'alloc':
                    kt, vt = diff.get('key_type'), diff.get('value_type')
                for u in diff.get('updates', []) or []:
                    if kt is not None and 'key' in u:
                        add('%s/%s/bigmap%s/key' % (c['name'], op['name'], d.get('id')), kt, u['key'], 'big_map_key')
                        if u.get('value') is not None:
                            add('%s/%s/bigmap%s/value' % (c['name'], op['name'], d.get('id')), vt, u['value'], 'big_map_value')
    _CACHE['typed'] = out
    return out


def size(e):
    if isinstance(e, list):
        return 1 + sum(size(x) for x in e)
    if isinstance(e, dict):
        return 1 + sum(size(x) for x in e.get('args', []))
    return 1


def micheline_items():
    """-> [(kind, expression)]: whole scripts, their type sections, recorded arguments and storages (untyped Micheline)."""
    if 'items' in _CACHE:
        return _CACHE['items']
    out, seen = [], set()

    def add(kind, e):
        k = json.dumps(e, sort_keys=True)
        if k not in seen:
            seen.add(k)
            out.append((kind, e))

    for c in contracts():
        add('script', c['code'])
        add('type', c['parameter'])
        add('type', c['storage'])
        for s in c['code']:
            if isinstance(s, dict) and s.get('prim') == 'code':
                add('code', s['args'][0])
        for op in c['operations']:
            add('data', op['parameters'].get('value', {'prim': 'Unit'}))
            if op['storage'] is not None:
                add('data', op['storage'])
            for d in op['lazy_storage_diff']:
                for u in (d.get('diff') or {}).get('updates') or []:
                    if u.get('value') is not None:
                        add('data', u['value'])
    _CACHE['items'] = out
    return out


def bigmap_ids(texpr, value, out=None):
    """{big-map id: (key type expr, value type expr)} from a recorded storage (ids sit where the type says big_map)."""
    out = {} if out is None else out
    p = texpr.get('prim')
    a = texpr.get('args') or []
    if p == 'big_map':
        if isinstance(value, dict) and 'int' in value:
            out[value['int']] = (a[0], a[1])
    elif p == 'pair':
        if len(a) > 2:
            a = [a[0], {'prim': 'pair', 'args': a[1:]}]
        vals = value if isinstance(value, list) else (value.get('args') if isinstance(value, dict) and value.get('prim') == 'Pair' else None)
        if vals and len(vals) >= 2:
            bigmap_ids(a[0], vals[0], out)
            bigmap_ids(a[1], vals[1] if len(vals) == 2 else vals[1:], out)
    elif p == 'option' and isinstance(value, dict) and value.get('prim') == 'Some':
        bigmap_ids(a[0], value['args'][0], out)
    elif p == 'or' and isinstance(value, dict) and value.get('prim') in ('Left', 'Right'):
        bigmap_ids(a[0 if value['prim'] == 'Left' else 1], value['args'][0], out)
    elif p == 'map' and isinstance(value, list):
        for x in value:
            if isinstance(x, dict) and x.get('prim') == 'Elt':
                bigmap_ids(a[1], x['args'][1], out)
    elif p == 'list' and isinstance(value, list):
        for x in value:
            bigmap_ids(a[0], x, out)
    return out


def onchain_key_hashes():
    """-> [(key type expr, key, key hash recorded by mainnet, value type expr, value | None)] from the recorded lazy storage diffs."""
    if 'hashes' in _CACHE:
        return _CACHE['hashes']
    out, seen = [], set()
    for c in contracts():
        for op in c['operations']:
            ids = bigmap_ids(c['storage'], op['storage']) if op['storage'] is not None else {}
            for d in op['lazy_storage_diff']:
                if d.get('kind') != 'big_map':
                    continue
                diff = d.get('diff') or {}
                kt, vt = diff.get('key_type'), diff.get('value_type')
                if kt is None and str(d.get('id')) in ids:
                    kt, vt = ids[str(d.get('id'))]
                if kt is None:
                    continue
                for u in diff.get('updates') or []:
                    if 'key' in u and 'key_hash' in u:
                        k = json.dumps([kt, u['key']], sort_keys=True)
                        if k not in seen:
                            seen.add(k)
                            out.append((kt, u['key'], u['key_hash'], vt, u.get('value')))
    _CACHE['hashes'] = out
    return out


def key_pools(limit=14):
    """{model key type: [model values]} of the keys real maps, sets and big maps use (recorded storages, arguments, diffs)."""
    if 'pools' in _CACHE:
        return _CACHE['pools']
    pools = {}

    def walk(t, v):
        p = t[0]
        if p in ('set',):
            for k in v:
                pools.setdefault(t[1], []).append(k)
        elif p in ('map', 'big_map'):
            for k, x in v:
                pools.setdefault(t[1], []).append(k)
                walk(t[2], x)
        elif p == 'pair':
            walk(t[1], v[0])
            walk(t[2], v[1])
        elif p == 'option' and v is not None:
            walk(t[1], v[1])
        elif p == 'or':
            walk(t[1] if v[0] == 'L' else t[2], v[1])
        elif p == 'list':
            for x in v:
                walk(t[1], x)

    for label, texpr, t, v, src in typed_values():
        walk(t, v)
    for kt, key, h, vt, val in onchain_key_hashes():
        try:
            t = T.from_micheline(strip(kt))
            pools.setdefault(t, []).append(P.parse(key, t))
        except Exception:
            pass
    out = {}
    for t, vals in pools.items():
        uniq = []
        for x in vals:
            if x not in uniq:
                uniq.append(x)
        if len(uniq) >= 2 and T.comparable(t):
            out[t] = uniq[:limit]
    _CACHE['pools'] = out
    return out
