"""Random untyped Micheline trees and byte-level mutants (stdlib only)."""
from rv.model.micheline_bin import GENERATED_PRIMS

ANNOT_HEADS = '%@:'
ANNOT_CHARS = 'abcxyzABZ019_.'


def boundary_int(rng, maxbits=4096):
    r = rng.random()
    if r < 0.15:
        v = rng.choice([0, 1, 2, 63, 64, 65, 127, 128, 8191, 8192, 8193, 2 ** 13 - 1, 2 ** 20 - 1, 2 ** 20])
    elif r < 0.55:
        k = rng.randint(0, maxbits // 8)
        v = rng.choice([2 ** (8 * k) - 1, 2 ** (8 * k), 2 ** (8 * k) + 1, 2 ** max(0, 8 * k - 1), 2 ** (6 + 7 * (k % 80)) - 1,
                        2 ** (6 + 7 * (k % 80))])
    elif r < 0.7:
        v = rng.choice([2 ** 63 - 1, 2 ** 63, 2 ** 64 - 1, 2 ** 64, 2 ** 31, 2 ** 32 - 1])
    else:
        v = rng.getrandbits(rng.choice([3, 7, 13, 30, 62, 200, maxbits]))
    return -v if rng.random() < 0.45 else v


def annot(rng):
    return rng.choice(ANNOT_HEADS) + ''.join(rng.choice(ANNOT_CHARS) for _ in range(rng.randint(0, 6)))


def rstring(rng):
    r = rng.random()
    if r < 0.2:
        return ''
    alphabet = 'abc XYZ019_-\n"\\{}();#' if r < 0.8 else 'aé€𝄞\t\x00\x7f'
    return ''.join(rng.choice(alphabet) for _ in range(rng.randint(1, 12)))


def tree(rng, budget, prims=GENERATED_PRIMS, maxbits=4096):
    """Random Micheline tree with about `budget` nodes."""
    r = rng.random()
    if budget <= 1 or r < 0.25:
        k = rng.random()
        if k < 0.35:
            return {'int': str(boundary_int(rng, maxbits))}
        if k < 0.55:
            return {'string': rstring(rng)}
        if k < 0.75:
            return {'bytes': bytes(rng.getrandbits(8) for _ in range(rng.choice([0, 1, 2, 20, 33]))).hex()}
        e = {'prim': rng.choice(prims)}
        _annots(rng, e)
        return e
    if r < 0.45:
        n = rng.choice([0, 1, 2, 3, 4, 6])
        return [tree(rng, max(1, (budget - 1) // max(n, 1)), prims, maxbits) for _ in range(n)]
    n = rng.choice([0, 1, 1, 2, 2, 3, 3, 4, 5])
    e = {'prim': rng.choice(prims)}
    if n or rng.random() < 0.3:
        e['args'] = [tree(rng, max(1, (budget - 1) // max(n, 1)), prims, maxbits) for _ in range(n)]
    _annots(rng, e)
    return e


def _annots(rng, e):
    r = rng.random()
    if r < 0.5:
        return
    if r < 0.6:
        e['annots'] = []
    else:
        e['annots'] = [annot(rng) for _ in range(rng.choice([1, 1, 2, 3]))]


def size(e):
    if isinstance(e, list):
        return 1 + sum(size(x) for x in e)
    return 1 + sum(size(a) for a in e.get('args', []) or [])


def structural_mutants(rng, data, n_random=12):
    """Yield (class, bytes). Classes truncation/extension are invalid for certain; the rest are decided by the
    strict model decoder."""
    L = len(data)
    cuts = range(L) if L <= 40 else sorted(set([0, 1, 2, L - 1, L - 2] + [rng.randrange(L) for _ in range(20)]))
    for c in cuts:
        yield 'truncate', data[:c]
    for ext in (b'\x00', b'\x03', b'\xff', data[-1:], b'\x00\x00\x00\x00'):
        yield 'extend', data + ext
    for _ in range(n_random):
        i = rng.randrange(L)
        b = bytearray(data)
        how = rng.random()
        if how < 0.4:
            b[i] = rng.getrandbits(8)
            yield 'byte-subst', bytes(b)
        elif how < 0.55:
            b[i] ^= 1 << rng.randrange(8)
            yield 'bit-flip', bytes(b)
        elif how < 0.7:
            b[i] = rng.choice([0x00, 0x80, 0x40, 0xC0, 0x0b, 0x0c, 0xee, 0x9e, 0x9f, 0xff, 0x0a, 0x09])
            yield 'tagish-subst', bytes(b)
        elif how < 0.85:
            del b[i]
            yield 'delete-byte', bytes(b)
        else:
            b.insert(i, rng.choice([0x00, 0x80, 0xff, 0x02]))
            yield 'insert-byte', bytes(b)


def nonminimal_int_mutants(data):
    """Re-encode the first integer found as tag 0 at top level position 0 with an extra zero continuation group."""
    if data[:1] == b'\x00':
        body = bytearray(data[1:])
        # find end of the zarith int
        i = 0
        while body[i] & 0x80:
            i += 1
        body[i] |= 0x80
        body.insert(i + 1, 0x00)
        yield 'nonminimal-int', b'\x00' + bytes(body)


LENGTHS = [127, 128, 129, 255, 256, 257, 1023, 1024, 4095, 4096, 16383, 16384, 65535, 65536, 65537, 70001]


def large_shapes(rng, quick=True):
    """Yield (label, tree): expressions on the far side of every size threshold the encoders have (one-byte and two-byte
    lengths, 2**16 and above, hundreds of elements / arguments / annotations, deep nesting, very long integers)."""
    lens = LENGTHS if not quick else [127, 128, 255, 256, 257, 4096, 65535, 65536, 70001]
    for n in lens:
        yield 'string-%d' % n, {'string': ''.join(rng.choice('abcXYZ 019') for _ in range(n))}
        yield 'bytes-%d' % n, {'bytes': bytes(rng.getrandbits(8) for _ in range(n)).hex()}
        yield 'annot-%d' % n, {'prim': 'Pair', 'args': [{'int': '1'}, {'int': '2'}], 'annots': ['%' + 'a' * (n - 1)]}
    for n in ([9, 10, 11, 127, 128, 255, 256, 257, 1000] + ([] if quick else [4096, 32767, 32768, 33000])):
        yield 'seq-%d' % n, [{'int': str(i % 64)} for i in range(n)]
        yield 'seq-of-strings-%d' % n, [{'string': str(i)} for i in range(n)]
        if n <= 1000:
            yield 'args-%d' % n, {'prim': 'Pair', 'args': [{'int': str(i)} for i in range(n)]}
            yield 'annots-%d' % n, {'prim': 'nat', 'annots': ['%' + 'f%d' % i for i in range(n)]}
            yield 'elt-%d' % n, [{'prim': 'Elt', 'args': [{'int': str(i)}, {'string': 'v%d' % i}]} for i in range(n)]
    for d in (9, 10, 11, 31, 32, 33, 64, 100, 150):
        e = {'int': '7'}
        f = {'prim': 'unit'}
        g = {'string': 'x'}
        for k in range(d):
            e = {'prim': 'Pair', 'args': [{'int': str(k)}, e]}
            f = {'prim': 'option', 'args': [f]} if k % 2 else {'prim': 'list', 'args': [f], 'annots': [':l%d' % k]}
            g = [g] if k % 3 else {'prim': 'Some', 'args': [g]}
        yield 'deep-pair-%d' % d, e
        yield 'deep-type-%d' % d, f
        yield 'deep-seq-%d' % d, g
    # (Python refuses int <-> str beyond 4300 digits by default, so integers stop short of 14000 bits)
    for bits in (2 ** 13, 2 ** 13 + 7, 13900):
        for v in (2 ** bits - 1, 2 ** bits, -(2 ** bits), -(2 ** bits) - 1):
            yield 'int-%dbits' % bits, {'int': str(v)}
