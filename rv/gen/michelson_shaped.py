"""Grammar-directed generator of Michelson-shaped Micheline: types, data, code, scripts (stdlib only)."""
SIMPLE_TYPES = ['unit', 'never', 'bool', 'int', 'nat', 'string', 'chain_id', 'bytes', 'mutez', 'key_hash', 'key', 'signature',
                'timestamp', 'address', 'operation', 'bls12_381_g1', 'bls12_381_g2', 'bls12_381_fr', 'tx_rollup_l2_address',
                'chest', 'chest_key']
NOARG_INSTR = ['DROP', 'DUP', 'SWAP', 'UNIT', 'CAR', 'CDR', 'PAIR', 'UNPAIR', 'SOME', 'COMPARE', 'EQ', 'NEQ', 'LT', 'GT', 'LE', 'GE',
               'ADD', 'SUB', 'MUL', 'EDIV', 'ABS', 'NEG', 'ISNAT', 'INT', 'NAT', 'BYTES', 'LSL', 'LSR', 'AND', 'OR', 'XOR', 'NOT',
               'CONCAT', 'SIZE', 'SLICE', 'PACK', 'BLAKE2B', 'SHA256', 'SHA512', 'SHA3', 'KECCAK', 'HASH_KEY', 'CHECK_SIGNATURE',
               'MEM', 'GET', 'UPDATE', 'GET_AND_UPDATE', 'CONS', 'EXEC', 'APPLY', 'FAILWITH', 'NEVER', 'AMOUNT', 'BALANCE', 'SENDER',
               'SOURCE', 'NOW', 'LEVEL', 'CHAIN_ID', 'SELF', 'SELF_ADDRESS', 'ADDRESS', 'IMPLICIT_ACCOUNT', 'TRANSFER_TOKENS',
               'SET_DELEGATE', 'VOTING_POWER', 'TOTAL_VOTING_POWER', 'MIN_BLOCK_TIME', 'TICKET', 'READ_TICKET', 'SPLIT_TICKET',
               'JOIN_TICKETS', 'PAIRING_CHECK', 'SAPLING_VERIFY_UPDATE', 'OPEN_CHEST', 'SUB_MUTEZ', 'RENAME', 'IS_IMPLICIT_ACCOUNT',
               'TICKET_DEPRECATED', 'STEPS_TO_QUOTA']
STR_ALPHABET = ''.join(chr(c) for c in range(32, 127))


def annots(rng, kinds='%:@', p=0.35):
    if rng.random() > p:
        return None
    out = []
    for _ in range(rng.choice([1, 1, 2, 3])):
        out.append(rng.choice(kinds) + rng.choice(['', 'a', 'fld', 'x_1', 'A.b', '0', '%', '@', '%%', 'default', 'very_long_annotation_name_0123456789']))
    return out


def _ann(rng, e, kinds='%:@', p=0.35):
    a = annots(rng, kinds, p)
    if a:
        e['annots'] = a
    return e


def gen_type(rng, depth):
    if depth <= 0 or rng.random() < 0.35:
        return _ann(rng, {'prim': rng.choice(SIMPLE_TYPES)}, '%:')
    k = rng.choice(['pair', 'pair', 'pairn', 'or', 'option', 'list', 'set', 'map', 'big_map', 'lambda', 'contract', 'ticket',
                    'sapling_state', 'sapling_transaction', 'sapling_transaction_deprecated', 'constant'])
    t = lambda: gen_type(rng, depth - 1)
    if k == 'pair':
        e = {'prim': 'pair', 'args': [t(), t()]}
    elif k == 'pairn':
        e = {'prim': 'pair', 'args': [t() for _ in range(rng.choice([3, 4, 6]))]}
    elif k in ('or', 'map', 'big_map', 'lambda'):
        e = {'prim': k, 'args': [t(), t()]}
    elif k in ('option', 'list', 'set', 'contract', 'ticket'):
        e = {'prim': k, 'args': [t()]}
    elif k == 'constant':
        e = {'prim': 'constant', 'args': [{'string': 'expru5X1yxJG6ezR2uHMotwMLNmSzQyh5t1vUnhjx4cS6Pv9qE1Sdo'}]}
    else:
        e = {'prim': k, 'args': [{'int': str(rng.choice([0, 8, 64]))}]}
    return _ann(rng, e, '%:')


def gen_string(rng):
    r = rng.random()
    if r < 0.15:
        return ''
    n = rng.choice([1, 2, 5, 20, 80, 150])
    if r < 0.5:
        return ''.join(rng.choice('abc XYZ019_') for _ in range(n))
    if r < 0.8:
        return ''.join(rng.choice(STR_ALPHABET) for _ in range(n))
    return ''.join(rng.choice('a"\\\n#;{}()/*') for _ in range(n))


def gen_int(rng):
    v = rng.choice([0, 1, 7, 255, 2 ** 31, 2 ** 64, 10 ** 40, rng.getrandbits(rng.choice([4, 20, 70]))])
    return {'int': str(-v if rng.random() < 0.4 else v)}


def gen_data(rng, depth):
    r = rng.random()
    if depth <= 0 or r < 0.3:
        k = rng.choice(['int', 'string', 'bytes', 'prim'])
        if k == 'int':
            return gen_int(rng)
        if k == 'string':
            return {'string': gen_string(rng)}
        if k == 'bytes':
            return {'bytes': bytes(rng.getrandbits(8) for _ in range(rng.choice([0, 1, 4, 32, 70]))).hex()}
        return {'prim': rng.choice(['Unit', 'True', 'False', 'None'])}
    d = lambda: gen_data(rng, depth - 1)
    k = rng.choice(['Pair', 'Pair', 'Pairn', 'Left', 'Right', 'Some', 'seq', 'seq', 'map', 'lambda', 'Lambda_rec', 'Ticket', 'nested-seq'])
    if k == 'Pair':
        return {'prim': 'Pair', 'args': [d(), d()]}
    if k == 'Pairn':
        return {'prim': 'Pair', 'args': [d() for _ in range(rng.choice([3, 4, 7]))]}
    if k in ('Left', 'Right', 'Some'):
        return {'prim': k, 'args': [d()]}
    if k == 'seq':
        return [d() for _ in range(rng.choice([0, 1, 2, 3, 8]))]
    if k == 'nested-seq':
        return [[d()], [], [[d(), d()]]]
    if k == 'map':
        return [{'prim': 'Elt', 'args': [d(), d()]} for _ in range(rng.choice([1, 2, 4]))]
    if k == 'lambda':
        return gen_code(rng, depth - 1)
    if k == 'Lambda_rec':
        return {'prim': 'Lambda_rec', 'args': [gen_code(rng, depth - 1)]}
    return {'prim': 'Ticket', 'args': [{'string': 'KT1BEqzn5Wx8uJrZNvuS9DVHmLvG9td3fDLi'}, gen_type(rng, 1), d(), {'int': '3'}]}


def gen_instr(rng, depth):
    r = rng.random()
    c = lambda: gen_code(rng, depth - 1)
    t = lambda: gen_type(rng, min(depth, 2))
    if depth <= 0 or r < 0.45:
        return _ann(rng, {'prim': rng.choice(NOARG_INSTR)}, '%:@', 0.25)
    k = rng.choice(['PUSH', 'PUSH', 'DIP', 'DIPn', 'IF', 'IF_NONE', 'IF_LEFT', 'IF_CONS', 'LOOP', 'LOOP_LEFT', 'ITER', 'MAP', 'LAMBDA',
                    'LAMBDA_REC', 'NIL', 'NONE', 'EMPTY_SET', 'EMPTY_MAP', 'EMPTY_BIG_MAP', 'LEFT', 'RIGHT', 'CONTRACT', 'CAST',
                    'UNPACK', 'n', 'CREATE_CONTRACT', 'VIEW', 'EMIT', 'SAPLING_EMPTY_STATE', 'seq'])
    if k == 'PUSH':
        e = {'prim': 'PUSH', 'args': [t(), gen_data(rng, depth - 1)]}
    elif k == 'DIP':
        e = {'prim': 'DIP', 'args': [c()]}
    elif k == 'DIPn':
        e = {'prim': 'DIP', 'args': [{'int': str(rng.choice([0, 1, 2, 17]))}, c()]}
    elif k in ('IF', 'IF_NONE', 'IF_LEFT', 'IF_CONS'):
        e = {'prim': k, 'args': [c(), c()]}
    elif k in ('LOOP', 'LOOP_LEFT', 'ITER', 'MAP'):
        e = {'prim': k, 'args': [c()]}
    elif k in ('LAMBDA', 'LAMBDA_REC'):
        e = {'prim': k, 'args': [t(), t(), c()]}
    elif k in ('NIL', 'NONE', 'EMPTY_SET', 'CONTRACT', 'CAST', 'UNPACK'):
        e = {'prim': k, 'args': [t()]}
    elif k in ('EMPTY_MAP', 'EMPTY_BIG_MAP', 'LEFT', 'RIGHT'):
        e = {'prim': k, 'args': [t(), t()] if k.startswith('EMPTY') else [t()]}
    elif k == 'n':
        e = {'prim': rng.choice(['DROP', 'DUP', 'DIG', 'DUG', 'PAIR', 'UNPAIR', 'GET', 'UPDATE']), 'args': [{'int': str(rng.choice([0, 1, 2, 3, 9, 1024]))}]}
    elif k == 'CREATE_CONTRACT':
        e = {'prim': 'CREATE_CONTRACT', 'args': [gen_script(rng, depth - 1)]}
    elif k == 'VIEW':
        e = {'prim': 'VIEW', 'args': [{'string': rng.choice(['v', 'get_x', 'a.b%c'])}, t()]}
    elif k == 'EMIT':
        e = {'prim': 'EMIT', 'args': [t()] if rng.random() < 0.7 else []}
        if not e['args']:
            del e['args']
    elif k == 'SAPLING_EMPTY_STATE':
        e = {'prim': k, 'args': [{'int': '8'}]}
    else:
        return c()
    return _ann(rng, e, '%:@', 0.2)


def gen_code(rng, depth, maxlen=6):
    return [gen_instr(rng, depth) for _ in range(rng.choice([0, 1, 2, 3, maxlen]))]


def gen_script(rng, depth):
    s = [{'prim': 'parameter', 'args': [gen_type(rng, 2)]}, {'prim': 'storage', 'args': [gen_type(rng, 2)]},
         {'prim': 'code', 'args': [gen_code(rng, depth, 10)]}]
    for _ in range(rng.choice([0, 0, 1, 2])):
        s.append({'prim': 'view', 'args': [{'string': rng.choice(['v', 'bal_of'])}, gen_type(rng, 1), gen_type(rng, 1), gen_code(rng, depth - 1)]})
    return s


def gen_expr(rng, depth):
    k = rng.choice(['type', 'data', 'data', 'code', 'code', 'script'])
    if k == 'type':
        return k, gen_type(rng, depth)
    if k == 'data':
        return k, gen_data(rng, depth)
    if k == 'code':
        return k, gen_code(rng, depth, 12)
    return k, gen_script(rng, depth)
