"""Generator of operation groups of the C06 kinds (stdlib + rv.model only)."""
from rv.gen import micheline as GM
from rv.gen import typed as G
from rv.model import base58 as B
from rv.model import opbin as OB
from rv.model import pack as P

NUMS = [0, 1, 127, 128, 255, 256, 16383, 16384, 2 ** 21 - 1, 2 ** 21, 2 ** 28, 2 ** 31, 2 ** 32, 2 ** 35 - 1, 2 ** 35, 2 ** 49,
        2 ** 56 - 1, 2 ** 56, 2 ** 63 - 1, 2 ** 63, 2 ** 64 - 1, 2 ** 64, 2 ** 70, 1420, 100000]
NAMED_EPS = ['a', 'transfer', 'mint_tokens', 'x' * 31, 'Default', 'defaul', 'default_', 'stake_', 'do_', 'A', 'e.f_1']


def num(rng):
    return rng.choice(NUMS) if rng.random() < 0.8 else rng.getrandbits(rng.choice([5, 20, 40, 62]))


def numfield(rng):
    v = num(rng)
    return str(v) if rng.random() < 0.7 else v


def pkh(rng):
    return P.kh_to_b58(G.gen_key_hash(rng))


def contract(rng, kinds=(0, 0, 1, 1, 3)):
    return P.addr22_to_b58(G.gen_addr22(rng, kinds))


def pk(rng):
    return P.key_to_b58(G.gen_key(rng))


def small_expr(rng):
    return GM.tree(rng, rng.choice([1, 2, 5, 12]), maxbits=256)


def manager(rng, kind, source=None, counter=None):
    return {'kind': kind, 'source': source or pkh(rng), 'fee': numfield(rng), 'counter': str(counter) if counter is not None else numfield(rng),
            'gas_limit': numfield(rng), 'storage_limit': numfield(rng)}


def content(rng, kind=None, source=None):
    kind = kind or rng.choice(list(OB.TAGS))
    if kind == 'activate_account':
        return {'kind': kind, 'pkh': B.encode(G.digest20(rng), 'tz1'), 'secret': G.rbytes(rng, 20).hex()}
    if kind == 'failing_noop':
        return {'kind': kind, 'arbitrary': rng.choice(['', 'a', 'hello world', 'x' * 300, 'é€', '\n'])}
    c = manager(rng, kind, source)
    if kind == 'reveal':
        c['public_key'] = pk(rng)
        if rng.random() < 0.3:
            c['proof'] = B.encode(G.rbytes(rng, 96), 'BLsig')
    elif kind == 'transaction':
        c['amount'] = numfield(rng)
        c['destination'] = contract(rng)
        r = rng.random()
        if r < 0.15:
            pass
        elif r < 0.3:
            c['parameters'] = {'entrypoint': 'default', 'value': {'prim': 'Unit'}}
        elif r < 0.65:
            c['parameters'] = {'entrypoint': rng.choice(OB.ENTRYPOINTS), 'value': rng.choice([{'prim': 'Unit'}, small_expr(rng)])}
        else:
            c['parameters'] = {'entrypoint': rng.choice(NAMED_EPS), 'value': small_expr(rng)}
    elif kind == 'origination':
        c['balance'] = numfield(rng)
        if rng.random() < 0.5:
            c['delegate'] = pkh(rng)
        c['script'] = {'code': [{'prim': 'parameter', 'args': [{'prim': 'unit'}]}, {'prim': 'storage', 'args': [small_expr(rng)]},
                                {'prim': 'code', 'args': [[small_expr(rng)]]}], 'storage': small_expr(rng)}
    elif kind == 'delegation':
        if rng.random() < 0.6:
            c['delegate'] = pkh(rng)
    elif kind == 'register_global_constant':
        c['value'] = small_expr(rng)
    elif kind == 'transfer_ticket':
        c['ticket_contents'] = small_expr(rng)
        c['ticket_ty'] = small_expr(rng)
        c['ticket_ticketer'] = contract(rng, (1, 1, 0))
        c['ticket_amount'] = numfield(rng)
        c['destination'] = contract(rng, (0, 1))
        c['entrypoint'] = rng.choice(OB.ENTRYPOINTS + NAMED_EPS)
    elif kind == 'smart_rollup_add_messages':
        c['message'] = [G.rbytes(rng, rng.choice([0, 1, 5, 40])).hex() for _ in range(rng.choice([0, 1, 2, 5]))]
    elif kind == 'smart_rollup_execute_outbox_message':
        c['rollup'] = B.encode(G.digest20(rng), 'sr1')
        c['cemented_commitment'] = B.encode(G.rbytes(rng, 32), 'src1')
        c['output_proof'] = G.rbytes(rng, rng.choice([0, 1, 64])).hex()
    return c


def group(rng, n=None, kinds=None):
    n = n or rng.choice([1, 1, 2, 3, 5, 8])
    return {'branch': B.encode(G.rbytes(rng, 32), 'B'),
            'contents': [content(rng, rng.choice(kinds) if kinds else None) for _ in range(n)]}
