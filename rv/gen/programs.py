"""Program generators (Micheline JSON, self-contained: programs push their own inputs).

1. sweeps(quick)        : instruction sweeps over boundary pools (exhaustive over the pools)
2. Compiler(rng).program: typed expression compiler with randomised stack scheduling
Both emit (label, code, static_result_types|None).
"""
from rv.gen import typed as G
from rv.model import order as O
from rv.model import pack as P
from rv.model import types as T


def I(prim, *args, annots=None):
    e = {'prim': prim}
    if args:
        e['args'] = list(args)
    if annots:
        e['annots'] = annots
    return e


def N(n):
    return {'int': str(n)}


def TY(t, annot=None):
    return T.to_micheline(t, annot)


def PUSH(t, v, annot=None):
    return I('PUSH', TY(t, annot), P.render(v, t, 'readable'))


# ---------------------------------------------------------------------------------------------------------------------
# 1. sweeps
# ---------------------------------------------------------------------------------------------------------------------
STRS = ['', 'a', 'ab', 'abc', 'hello world']
BYTS = [b'', b'\x00', b'\xff', b'ab', b'\x00\x01\x02\x03']
NATS = [0, 1, 2, 3, 5, 100]


def sweeps(quick):
    out = []
    add = lambda label, code: out.append((label, code))
    # strings / bytes
    for t, pool in ((T.STRING, STRS), (T.BYTES, BYTS)):
        for a in pool:
            for b in pool:
                add('CONCAT2 ' + t[0], [PUSH(t, b), PUSH(t, a), I('CONCAT')])
            add('SIZE ' + t[0], [PUSH(t, a), I('SIZE')])
            for o in range(0, len(a) + 2):
                for l in range(0, len(a) + 2):
                    add('SLICE ' + t[0], [PUSH(t, a), PUSH(T.NAT, l), PUSH(T.NAT, o), I('SLICE')])
        for lst in ([], [pool[1]], pool[:3], pool):
            add('CONCAT-list ' + t[0], [PUSH(T.list_(t), lst), I('CONCAT')])
    # bitwise / shift instructions on byte strings of different lengths
    BB = [b'', b'\xff', b'\x0f\xf0', b'\xab\xcd\xef', b'\x00\x00\x01']
    for a in BB:
        add('NOT bytes', [PUSH(T.BYTES, a), I('NOT')])
        for b in BB:
            for op in ('AND', 'OR', 'XOR'):
                add(op + ' bytes', [PUSH(T.BYTES, b), PUSH(T.BYTES, a), I(op)])
        for n in (0, 1, 7, 8, 9, 15, 16, 17, 23, 24, 25, 31, 32, 33, 40, 47, 48, 64, 255, 256, 257):
            add('LSL bytes', [PUSH(T.NAT, n), PUSH(T.BYTES, a), I('LSL')])
            add('LSR bytes', [PUSH(T.NAT, n), PUSH(T.BYTES, a), I('LSR')])
    # hashes
    for h in ('BLAKE2B', 'SHA256', 'SHA512', 'SHA3', 'KECCAK'):
        for b in BYTS + [b'a' * 135, b'a' * 136, b'a' * 137, b'\x00' * 200]:
            add(h, [PUSH(T.BYTES, b), I(h)])
    # stack manipulation on depth-5 stack of distinct tagged nats
    base = [PUSH(T.NAT, 10 + i) for i in range(5)]       # top = 14
    for n in range(0, 7):
        add('DIG', base + [I('DIG', N(n))])
        add('DUG', base + [I('DUG', N(n))])
        add('DROP n', base + [I('DROP', N(n))])
        add('DUP n', base + [I('DUP', N(n))])
        add('DIP n', base + [I('DIP', N(n), [PUSH(T.STRING, 'x')])])
        add('DIP n nested', base + [I('DIP', N(n), [I('DIP', [I('DROP')]) if n < 3 else I('UNIT')])])
        add('PAIR n', base + [I('PAIR', N(n))])
        add('PAIR n;UNPAIR n', base + [I('PAIR', N(n)), I('UNPAIR', N(n))])
    add('SWAP', base + [I('SWAP')])
    add('DUP', base + [I('DUP')])
    add('DROP', base + [I('DROP')])
    add('DIP', base + [I('DIP', [I('SWAP')])])
    add('DIP empty', base + [I('DIP', [])])
    # combs: GET n / UPDATE n / UNPAIR n / CAR / CDR on right combs of 2..5 tagged values of mixed types
    leafs = [(T.NAT, 1), (T.STRING, 's'), (T.INT, -3), (T.BOOL, True), (T.BYTES, b'\x01')]
    for k in range(2, 6):
        t = T.pair(*[x[0] for x in leafs[:k]])
        v = None
        for lt, lv in reversed(leafs[:k]):
            v = lv if v is None else (lv, v)
        for n in range(0, 2 * k + 1):
            add('GET n', [PUSH(t, v), I('GET', N(n))])
            add('UPDATE n', [PUSH(t, v), PUSH(T.STRING, 'new'), I('UPDATE', N(n))])
            add('UPDATE n pair', [PUSH(t, v), PUSH(T.pair(T.NAT, T.NAT), (7, 8)), I('UPDATE', N(n))])
        for n in range(2, k + 2):
            add('UNPAIR n', [PUSH(t, v), I('UNPAIR', N(n))])
        add('CAR', [PUSH(t, v), I('CAR')])
        add('CDR', [PUSH(t, v), I('CDR')])
        add('UNPAIR', [PUSH(t, v), I('UNPAIR')])
    # nested (left-leaning) pair: comb access follows the type structure only
    tl = T.pair(T.pair(T.NAT, T.STRING), T.pair(T.INT, T.BOOL))
    vl = ((1, 's'), (-3, True))
    for n in range(0, 5):
        add('GET n nested', [PUSH(tl, vl), I('GET', N(n))])
        add('UPDATE n nested', [PUSH(tl, vl), PUSH(T.NAT, 9), I('UPDATE', N(n))])
    # options / unions
    for v in (None, ('Some', 5)):
        add('IF_NONE', [PUSH(T.option(T.NAT), v), I('IF_NONE', [PUSH(T.NAT, 0)], [PUSH(T.NAT, 1), I('ADD')])])
    for v in (('L', 5), ('R', 's')):
        add('IF_LEFT', [PUSH(T.or_(T.NAT, T.STRING), v), I('IF_LEFT', [I('INT')], [I('SIZE'), I('INT')])])
    add('LEFT', [PUSH(T.NAT, 1), I('LEFT', TY(T.STRING))])
    add('RIGHT', [PUSH(T.NAT, 1), I('RIGHT', TY(T.pair(T.STRING, T.INT)))])
    add('SOME', [PUSH(T.NAT, 1), I('SOME')])
    add('NONE', [I('NONE', TY(T.pair(T.NAT, T.option(T.STRING))))])
    add('UNIT', [I('UNIT')])
    # lists
    for lst in ([], [1], [1, 2, 3]):
        add('IF_CONS', [PUSH(T.list_(T.NAT), lst), I('IF_CONS', [I('DIP', [I('SIZE')]), I('ADD')], [PUSH(T.NAT, 99)])])
        add('CONS', [PUSH(T.list_(T.NAT), lst), PUSH(T.NAT, 7), I('CONS')])
        add('SIZE list', [PUSH(T.list_(T.NAT), lst), I('SIZE')])
        add('ITER list', [PUSH(T.NAT, 0), PUSH(T.list_(T.NAT), lst), I('ITER', [I('ADD')])])
        add('MAP list', [PUSH(T.list_(T.NAT), lst), I('MAP', [PUSH(T.NAT, 1), I('ADD')])])
        add('MAP list type-changing', [PUSH(T.list_(T.NAT), lst), I('MAP', [I('INT'), I('NEG')])])
        add('MAP list with stack', [PUSH(T.NAT, 10), PUSH(T.list_(T.NAT), lst), I('MAP', [I('DIP', [I('DUP')]), I('ADD')])])
    add('NIL', [I('NIL', TY(T.pair(T.NAT, T.STRING)))])
    # sets / maps over a 3-key universe, every key incl. absent ones; composite keys
    for kt, keys in ((T.NAT, [1, 3, 5, 4, 0, 9]), (T.pair(T.NAT, T.STRING), [(1, 'b'), (2, 'a'), (1, 'a'), (0, 'z'), (2, ''), (9, '')]),
                     (T.or_(T.NAT, T.STRING), [('L', 5), ('R', 'a'), ('L', 7), ('R', ''), ('L', 0), ('R', 'z')]),
                     (T.option(T.INT), [None, ('Some', -1), ('Some', 2), ('Some', 0), ('Some', 3), ('Some', -5)])):
        present = O.sort_unique(kt, keys[:3])
        st, mt = T.set_(kt), T.map_(kt, T.STRING)
        mv = [(k, 'v%d' % i) for i, k in enumerate(present)]
        for k in keys:
            add('MEM set', [PUSH(st, present), PUSH(kt, k), I('MEM')])
            add('MEM map', [PUSH(mt, mv), PUSH(kt, k), I('MEM')])
            add('GET map', [PUSH(mt, mv), PUSH(kt, k), I('GET')])
            for flag in (True, False):
                add('UPDATE set', [PUSH(st, present), PUSH(T.BOOL, flag), PUSH(kt, k), I('UPDATE')])
            for nv in (None, ('Some', 'new')):
                add('UPDATE map', [PUSH(mt, mv), PUSH(T.option(T.STRING), nv), PUSH(kt, k), I('UPDATE')])
                add('GET_AND_UPDATE map', [PUSH(mt, mv), PUSH(T.option(T.STRING), nv), PUSH(kt, k), I('GET_AND_UPDATE')])
        add('SIZE set', [PUSH(st, present), I('SIZE')])
        add('SIZE map', [PUSH(mt, mv), I('SIZE')])
        add('ITER set', [I('NIL', TY(kt)), PUSH(st, present), I('ITER', [I('CONS')])])
        add('ITER map', [I('NIL', TY(T.pair(kt, T.STRING))), PUSH(mt, mv), I('ITER', [I('CONS')])])
        add('MAP map', [PUSH(mt, mv), I('MAP', [I('CDR'), I('SIZE')])])
        add('MAP map key-dependent', [PUSH(mt, mv), I('MAP', [I('CAR')])])
        add('MAP empty map type-changing', [I('EMPTY_MAP', TY(kt), TY(T.STRING)), I('MAP', [I('CDR'), I('SIZE')])])
        add('EMPTY_SET', [I('EMPTY_SET', TY(kt))])
        add('EMPTY_MAP', [I('EMPTY_MAP', TY(kt), TY(T.list_(T.NAT)))])
    add('MAP empty list type-changing', [I('NIL', TY(T.NAT)), I('MAP', [I('INT')])])
    # loops
    for n in (0, 1, 5):
        add('LOOP', [PUSH(T.NAT, n), PUSH(T.NAT, 0), PUSH(T.BOOL, True),
                     I('LOOP', [PUSH(T.NAT, 1), I('ADD'), I('DUP'), I('DUP', N(3)), I('COMPARE'), I('GT')]), I('DIP', [I('DROP')])])
        add('LOOP_LEFT', [PUSH(T.or_(T.NAT, T.STRING), ('L', n)),
                          I('LOOP_LEFT', [I('DUP'), PUSH(T.NAT, 3), I('COMPARE'), I('LT'),
                                          I('IF', [I('DROP'), PUSH(T.STRING, 'done'), I('RIGHT', TY(T.NAT))], [PUSH(T.NAT, 1), I('ADD'), I('LEFT', TY(T.STRING))])])])
    add('LOOP false', [PUSH(T.BOOL, False), I('LOOP', [I('UNIT'), I('FAILWITH')])])
    # lambdas
    lam = [PUSH(T.NAT, 1), I('ADD')]
    add('LAMBDA;EXEC', [I('LAMBDA', TY(T.NAT), TY(T.NAT), lam), PUSH(T.NAT, 41), I('EXEC')])
    add('LAMBDA;APPLY;EXEC', [I('LAMBDA', TY(T.pair(T.NAT, T.NAT)), TY(T.NAT), [I('UNPAIR'), I('ADD')]), PUSH(T.NAT, 40), I('APPLY'), PUSH(T.NAT, 2), I('EXEC')])
    add('LAMBDA;APPLY;APPLY;EXEC', [I('LAMBDA', TY(T.pair(T.STRING, T.pair(T.NAT, T.NAT))), TY(T.NAT), [I('UNPAIR', N(3)), I('SIZE'), I('ADD'), I('ADD')]),
                                    PUSH(T.STRING, 'abc'), I('APPLY'), PUSH(T.NAT, 2), I('APPLY'), PUSH(T.NAT, 10), I('EXEC')])
    add('EXEC failing lambda', [I('LAMBDA', TY(T.NAT), TY(T.NAT), [I('FAILWITH')]), PUSH(T.NAT, 41), I('EXEC')])
    add('lambda in DIP', [PUSH(T.STRING, 'keep'), I('LAMBDA', TY(T.NAT), TY(T.NAT), lam), PUSH(T.NAT, 1), I('EXEC'), I('DIP', [I('SIZE')]), I('ADD')])
    # FAILWITH with composite values
    for t, v in ((T.STRING, 'boom'), (T.pair(T.NAT, T.STRING), (7, 'x')), (T.option(T.INT), ('Some', -1)), (T.list_(T.NAT), [1, 2]), (T.UNIT, ()),
                 (T.pair(T.NAT, T.INT, T.STRING, T.BYTES), (1, (2, ('s', b'\x00'))))):
        add('FAILWITH', [PUSH(T.NAT, 0), PUSH(t, v), I('FAILWITH')])
        add('FAILWITH in DIP', [PUSH(T.NAT, 0), PUSH(t, v), I('DIP', N(0), [I('FAILWITH')])])
    # comparisons on ints
    for v in (-5, -1, 0, 1, 5):
        for op in ('EQ', 'NEQ', 'LT', 'GT', 'LE', 'GE'):
            add(op, [PUSH(T.INT, v), I(op)])
    # integer division and sign-sensitive arithmetic over a small signed pool (exact and inexact quotients, both signs)
    small = [-7, -6, -3, -2, -1, 0, 1, 2, 3, 6, 7]
    for a in small:
        for b in small:
            add('EDIV int int', [PUSH(T.INT, b), PUSH(T.INT, a), I('EDIV')])
            if b >= 0:
                add('EDIV int nat', [PUSH(T.NAT, b), PUSH(T.INT, a), I('EDIV')])
            if a >= 0:
                add('EDIV nat int', [PUSH(T.INT, b), PUSH(T.NAT, a), I('EDIV')])
            if a >= 0 and b >= 0:
                add('EDIV mutez nat', [PUSH(T.NAT, b), PUSH(T.MUTEZ, a), I('EDIV')])
                add('EDIV mutez mutez', [PUSH(T.MUTEZ, b), PUSH(T.MUTEZ, a), I('EDIV')])
    # COMPARE on options / pairs / unions whose payloads are falsy Python objects ("" 0x False 0 Unit None)
    falsy = [(T.option(T.STRING), [None, ('Some', ''), ('Some', 'a')]), (T.option(T.BOOL), [None, ('Some', False), ('Some', True)]),
             (T.option(T.BYTES), [None, ('Some', b''), ('Some', b'\x00')]), (T.option(T.NAT), [None, ('Some', 0), ('Some', 1)]),
             (T.option(T.option(T.BOOL)), [None, ('Some', None), ('Some', ('Some', False))]), (T.option(T.UNIT), [None, ('Some', ())]),
             (T.pair(T.option(T.STRING), T.NAT), [(None, 5), (('Some', ''), 1), (('Some', ''), 5)]),
             (T.or_(T.STRING, T.BOOL), [('L', ''), ('L', 'a'), ('R', False), ('R', True)])]
    for t, vals in falsy:
        for a in vals:
            for b in vals:
                add('COMPARE falsy payloads', [PUSH(t, b), PUSH(t, a), I('COMPARE')])
    # maps and sets whose stored values are falsy Python objects: a bound key is bound whatever it is bound to
    for vt, vals in ((T.STRING, ['', 'a']), (T.BOOL, [False, True]), (T.BYTES, [b'', b'\x00']), (T.list_(T.NAT), [[], [1]]), (T.NAT, [0, 1]),
                     (T.option(T.NAT), [None, ('Some', 0)]), (T.set_(T.NAT), [[], [1]])):
        mt = T.map_(T.NAT, vt)
        mv = [(1, vals[0]), (2, vals[1])]
        for k in (1, 2, 3):
            for nv in (None, ('Some', vals[0]), ('Some', vals[1])):
                add('UPDATE map falsy values', [PUSH(mt, mv), PUSH(T.option(vt), nv), PUSH(T.NAT, k), I('UPDATE'), I('DUP'), I('SIZE'), I('SWAP'), PUSH(T.NAT, k), I('GET'), I('PAIR')])
                add('GET_AND_UPDATE map falsy values', [PUSH(mt, mv), PUSH(T.option(vt), nv), PUSH(T.NAT, k), I('GET_AND_UPDATE'), I('PAIR'), I('DUP'), I('CDR'), I('SIZE'), I('SWAP'), I('PAIR')])
            add('MEM map falsy values', [PUSH(mt, mv), PUSH(T.NAT, k), I('MEM')])
    # operands taken out of field-annotated records, then an instruction that may answer None (the model ignores annotations)
    def ann_pair(t1, v1, t2, v2):
        return {'prim': 'PUSH', 'args': [{'prim': 'pair', 'args': [dict(T.to_micheline(t1), annots=['%first']), dict(T.to_micheline(t2), annots=['%second', ':ty'])]},
                                       {'prim': 'Pair', 'args': [P.render(v1, t1, 'readable'), P.render(v2, t2, 'readable')]}]}
    for sv in ('', 'abc'):
        for off, ln in ((0, 0), (0, 5), (1, 1), (5, 0), (3, 1)):
            add('SLICE on an annotated field', [ann_pair(T.STRING, sv, T.NAT, 7), I('CAR'), PUSH(T.NAT, ln), PUSH(T.NAT, off), I('SLICE')])
            add('SLICE on an annotated field', [ann_pair(T.NAT, 7, T.BYTES, sv.encode()), I('CDR'), PUSH(T.NAT, ln), PUSH(T.NAT, off), I('SLICE')])
    for iv in (-3, 0, 4):
        add('ISNAT on an annotated field', [ann_pair(T.INT, iv, T.NAT, 1), I('UNPAIR'), I('ISNAT'), I('PAIR')])
        add('EDIV on annotated fields', [ann_pair(T.INT, iv, T.NAT, abs(iv)), I('UNPAIR'), I('EDIV')])
    for a, b in ((5, 3), (3, 5), (0, 0)):
        add('SUB_MUTEZ on annotated fields', [ann_pair(T.MUTEZ, a, T.MUTEZ, b), I('UNPAIR'), I('SUB_MUTEZ')])
    add('GET on annotated fields', [ann_pair(T.map_(T.STRING, T.NAT), [('a', 1)], T.STRING, 'zz'), I('UNPAIR'), I('SWAP'), I('GET')])
    add('SOME / LEFT / CONS on annotated fields', [ann_pair(T.STRING, 's', T.NAT, 1), I('UNPAIR'), I('SOME'), I('SWAP'), I('LEFT', TY(T.INT)), I('PAIR'),
                                                    ann_pair(T.NAT, 2, T.NAT, 3), I('CAR'), I('NIL', TY(T.NAT)), I('SWAP'), I('CONS'), I('PAIR')])
    # long inputs, many iterations, deep stacks, wide combs: thresholds at 9/10/11, 2**7, 2**8, 2**16
    for n in (9, 10, 11, 127, 128, 255, 256, 257, 300):
        nats = list(range(n))
        add('ITER long list', [PUSH(T.NAT, 0), PUSH(T.list_(T.NAT), [(i * 37) % 101 for i in nats]), I('ITER', [I('ADD')])])
        add('MAP long list', [PUSH(T.list_(T.NAT), nats), I('MAP', [PUSH(T.NAT, 3), I('MUL')])])
        add('SIZE/MEM long set', [PUSH(T.set_(T.NAT), nats), I('DUP'), I('SIZE'), I('SWAP'), PUSH(T.NAT, n - 1), I('MEM'), I('PAIR')])
        add('ITER long set order', [I('NIL', TY(T.STRING)), PUSH(T.set_(T.STRING), O.sort_unique(T.STRING, [str(i) for i in nats])), I('ITER', [I('CONS')])])
        add('ITER long map order', [I('NIL', TY(T.INT)), PUSH(T.map_(T.INT, T.NAT), [(i - n // 2, i) for i in nats]), I('ITER', [I('CAR'), I('CONS')])])
        add('UPDATE into long map', [PUSH(T.map_(T.NAT, T.NAT), [(2 * i, i) for i in nats]), PUSH(T.option(T.NAT), ('Some', 5)), PUSH(T.NAT, n), I('UPDATE'),
                                      I('NIL', TY(T.NAT)), I('SWAP'), I('ITER', [I('CAR'), I('CONS')])])
        add('CONCAT long list', [PUSH(T.list_(T.STRING), [str(i) for i in nats]), I('CONCAT')])
        add('LOOP many iterations', [PUSH(T.NAT, 0), PUSH(T.BOOL, True), I('LOOP', [PUSH(T.NAT, 1), I('ADD'), I('DUP'), PUSH(T.NAT, n), I('COMPARE'), I('GT')])])
        add('LOOP_LEFT many iterations', [PUSH(T.or_(T.NAT, T.STRING), ('L', 0)), I('LOOP_LEFT', [PUSH(T.NAT, 1), I('ADD'), I('DUP'), PUSH(T.NAT, n), I('COMPARE'), I('GT'),
                                           I('IF', [I('LEFT', TY(T.STRING))], [I('DROP'), PUSH(T.STRING, 'done'), I('RIGHT', TY(T.NAT))])])])
    for n in (255, 256, 257, 65535, 65536, 65537):
        sv = ''.join('abcdefghij'[(i * 7) % 10] for i in range(n))
        for off, ln in ((0, n), (n - 1, 1), (n, 0), (n - 3, 3), (n - 3, 4), (254, 3), (1, n - 1)):
            add('SLICE long string', [PUSH(T.STRING, sv), PUSH(T.NAT, ln), PUSH(T.NAT, off), I('SLICE'), I('IF_NONE', [PUSH(T.NAT, 0)], [I('SIZE')])])
        add('SIZE long string', [PUSH(T.STRING, sv), I('SIZE'), PUSH(T.BYTES, sv.encode()), I('SIZE'), I('PAIR')])
        add('CONCAT long strings', [PUSH(T.STRING, sv), PUSH(T.STRING, 'x'), I('CONCAT'), I('SIZE')])
        add('hash long bytes', [PUSH(T.BYTES, sv.encode()), I('BLAKE2B'), PUSH(T.BYTES, sv.encode()), I('SHA256'), I('PAIR')])
    deep = [PUSH(T.NAT, 100 + i) for i in range(24)]
    for n in (7, 8, 9, 10, 11, 15, 16, 17, 23):
        add('DIG deep', deep + [I('DIG', N(n))])
        add('DUG deep', deep + [I('DUG', N(n))])
        add('DUP n deep', deep + [I('DUP', N(n))])
        add('DROP n deep', deep + [I('DROP', N(n))])
        add('DIP n deep', deep + [I('DIP', N(n), [PUSH(T.STRING, 'x')])])
        add('PAIR n wide', deep + [I('PAIR', N(n))])
        add('PAIR n; UNPAIR n', deep + [I('PAIR', N(n)), I('UNPAIR', N(n))])
        for k in (0, 1, 2, n, n + 1, 2 * n - 3, 2 * n - 2):
            add('GET k on a wide comb', deep + [I('PAIR', N(n)), I('GET', N(k))])
            add('UPDATE k on a wide comb', deep + [I('PAIR', N(n)), PUSH(T.STRING, 'new'), I('UPDATE', N(k))])
    # CAST / RENAME no-ops
    add('CAST', [PUSH(T.NAT, 1), I('CAST', TY(T.NAT))])
    add('RENAME', [PUSH(T.NAT, 1), I('RENAME', annots=['@x'])])
    # HASH_KEY, IMPLICIT_ACCOUNT;ADDRESS
    import random
    r = random.Random(5)
    for _ in range(2 if quick else 8):
        k = G.gen_key(r)
        add('HASH_KEY', [PUSH(T.KEY, k), I('HASH_KEY')])
        add('HASH_KEY;IMPLICIT_ACCOUNT;ADDRESS', [PUSH(T.KEY, k), I('HASH_KEY'), I('IMPLICIT_ACCOUNT'), I('ADDRESS')])
    return out


def lambda_rec_programs():
    fact = [I('DUP'), I('EQ'), I('IF', [PUSH(T.INT, 1)], [I('DUP'), I('DUP', N(3)), PUSH(T.INT, 1), I('DUP', N(4)), I('SUB'), I('EXEC'), I('MUL')]),
            I('DIP', [I('DROP', N(2))])]
    ident = [I('DIP', [I('DROP')])]
    out = []
    for n in (0, 1, 4):
        out.append(('LAMBDA_REC factorial', [I('LAMBDA_REC', TY(T.INT), TY(T.INT), fact), PUSH(T.INT, n), I('EXEC')]))
    out.append(('LAMBDA_REC identity', [I('LAMBDA_REC', TY(T.STRING), TY(T.STRING), ident), PUSH(T.STRING, 'x'), I('EXEC')]))
    out.append(('LAMBDA_REC not executed', [I('LAMBDA_REC', TY(T.INT), TY(T.INT), fact), I('DROP'), I('UNIT')]))
    return out


ENV_PROGRAMS = [
    ('env all', [I('AMOUNT'), I('BALANCE'), I('NOW'), I('LEVEL'), I('MIN_BLOCK_TIME'), I('TOTAL_VOTING_POWER'), I('SENDER'), I('SOURCE'),
                 I('SELF_ADDRESS'), I('CHAIN_ID'), I('PAIR', N(10))]),
    ('env arithmetic', [I('AMOUNT'), I('BALANCE'), I('ADD'), I('NOW'), PUSH(T.INT, 60), I('ADD'), I('LEVEL'), I('PAIR', N(3))]),
    ('env compare', [I('SENDER'), I('SOURCE'), I('COMPARE'), I('SELF_ADDRESS'), I('SENDER'), I('COMPARE'), I('PAIR')]),
    ('env twice', [I('NOW'), I('NOW'), I('SUB'), I('AMOUNT'), I('AMOUNT'), I('SUB_MUTEZ'), I('PAIR')]),
]


def env_configs(rng, n):
    out = [{}]
    for _ in range(n):
        e = {}
        for k, gen in (('amount', lambda: G.gen_value(rng, T.MUTEZ)), ('balance', lambda: G.gen_value(rng, T.MUTEZ)),
                       ('now', lambda: rng.choice([0, 1, -1, 1700000000, 253402300800, -62135596801])), ('level', lambda: rng.choice([0, 1, 2 ** 31, 5000000])),
                       ('min_block_time', lambda: rng.choice([1, 15, 60000])), ('total_voting_power', lambda: rng.choice([0, 1, 2500, 2 ** 62])),
                       ('sender', lambda: (G.gen_addr22(rng), '')), ('source', lambda: (G.gen_addr22(rng, (0,)), '')),
                       ('self_address', lambda: (G.gen_addr22(rng, (1,)), '')), ('chain_id', lambda: G.rbytes(rng, 4))):
            if rng.random() < 0.75:
                e[k] = gen()
        if rng.random() < 0.5:
            e['voting_power'] = {G.gen_key_hash(rng): rng.choice([0, 1, 500])}
        out.append(e)
    return out


# ---------------------------------------------------------------------------------------------------------------------
# 2. typed expression compiler with randomised stack scheduling
# ---------------------------------------------------------------------------------------------------------------------
class Compiler:
    """gen(env, R, depth) -> code that leaves the stack `env` (list of types, top first) untouched and pushes one value of
    type R on top of it. Programs are well-typed by construction; the static type of every result is known."""

    LEAF_POOL = [T.NAT, T.INT, T.STRING, T.BYTES, T.BOOL, T.MUTEZ, T.TIMESTAMP, T.UNIT, T.ADDRESS, T.KEY_HASH, T.CHAIN_ID]

    def __init__(self, rng, max_depth=3, allow_fail=True, size_limit=120):
        self.rng = rng
        self.max_depth = max_depth
        self.allow_fail = allow_fail
        self.size_limit = size_limit
        self.size = 0

    def rtype(self, depth=2):
        rng = self.rng
        if depth <= 0 or rng.random() < 0.45:
            return rng.choice(self.LEAF_POOL)
        k = rng.choice(['pair', 'pair', 'option', 'or', 'list', 'set', 'map', 'pair3', 'pair4', 'lambda'])
        if k == 'pair':
            return T.pair(self.rtype(depth - 1), self.rtype(depth - 1))
        if k == 'pair3':
            return T.pair(self.rtype(depth - 1), self.rtype(0), self.rtype(0))
        if k == 'pair4':
            return T.pair(self.rtype(0), self.rtype(0), self.rtype(0), self.rtype(0))
        if k == 'option':
            return T.option(self.rtype(depth - 1))
        if k == 'or':
            return T.or_(self.rtype(depth - 1), self.rtype(depth - 1))
        if k == 'list':
            return T.list_(self.rtype(depth - 1))
        if k == 'set':
            return T.set_(self.ctype(depth - 1))
        if k == 'map':
            return T.map_(self.ctype(depth - 1), self.rtype(depth - 1))
        return T.lambda_(self.rtype(0), self.rtype(0))

    def ctype(self, depth=1):
        rng = self.rng
        base = [T.NAT, T.INT, T.STRING, T.BYTES, T.BOOL, T.MUTEZ, T.TIMESTAMP, T.ADDRESS, T.KEY_HASH]
        if depth <= 0 or rng.random() < 0.5:
            return rng.choice(base)
        k = rng.choice(['pair', 'option', 'or'])
        if k == 'pair':
            return T.pair(self.ctype(depth - 1), self.ctype(depth - 1))
        if k == 'option':
            return T.option(self.ctype(depth - 1))
        return T.or_(self.ctype(depth - 1), self.ctype(depth - 1))

    # -- entry ---------------------------------------------------------------------------------------------------------
    def program(self):
        rng = self.rng
        self.size = 0
        env, code = [], []
        for _ in range(rng.randint(1, 4)):
            t = self.rtype(2)
            if not T.pushable(t):
                t = T.NAT
            if T.contains(t, 'lambda'):
                t = T.STRING
            code.append(PUSH(t, G.gen_value(rng, t, 2)))
            env.insert(0, t)
        results = []
        for _ in range(rng.randint(1, 3)):
            R = self.rtype(2)
            c = self.gen(env, R, self.max_depth)
            code += c
            env.insert(0, R)
            results.append(R)
        if rng.random() < 0.4 and len(env) >= 2:
            n = rng.randint(2, len(env))
            code.append(I('PAIR', N(n)))
            env = [T.pair(*env[:n])] + env[n:]
        return code, list(env)

    # -- productions --------------------------------------------------------------------------------------------------
    def gen(self, env, R, depth):
        self.size += 1
        code = self._gen(env, R, depth)
        return self.schedule(env, R, code)

    def schedule(self, env, R, code):
        """Equivalent stack schedules around a block that pushes one value on top of env."""
        rng = self.rng
        r = rng.random()
        k = len(env)
        if r < 0.08 and k >= 1:
            d = rng.randint(1, k)
            inner = self.retarget(code, env, d)
            if inner is not None:
                return [I('DIP', N(d), inner) if (d != 1 or rng.random() < 0.5) else I('DIP', inner), I('DIG', N(d))]
        if r < 0.12 and k >= 1:
            d = rng.randint(0, k)
            return code + [I('DUG', N(d)), I('DIG', N(d))]
        if r < 0.15 and k >= 1:
            n = rng.randint(2, k + 1)
            return code + [I('PAIR', N(n)), I('UNPAIR', N(n))]
        if r < 0.17:
            return code + [I('DROP', N(0)), I('DIG', N(0)), I('DUG', N(0)), I('DIP', N(0), [])]
        if r < 0.19 and k >= 1:
            return code + [I('SWAP'), I('SWAP')]
        return code

    def retarget(self, code, env, d):
        """code was generated against env; it only reads env through DUP n, so under DIP d the indices shift by -d.
        Only blocks that do not refer to the first d slots can be moved: regenerate instead of rewriting."""
        return None if True else code

    def literal(self, R):
        return [PUSH(R, G.gen_value(self.rng, R, 2))]

    def _gen(self, env, R, depth):
        rng = self.rng
        p = R[0]
        choices = []
        if T.pushable(R) and not T.contains(R, 'lambda'):
            choices += ['lit'] * (2 if depth > 0 else 6)
        vars_ = [i for i, t in enumerate(env) if t == R and T.duplicable(t)]
        if vars_:
            choices += ['var'] * 3
        if depth > 0 and self.size < self.size_limit:
            choices += self.ops_for(R)
            choices += ['if', 'if_none', 'if_left', 'if_cons', 'exec', 'iter', 'loop', 'car', 'cdr', 'unopt', 'getn']
            if self.allow_fail:
                choices += ['failbranch']
        if not choices:
            return self.build_unpushable(env, R, depth)
        c = rng.choice(choices)
        d = depth - 1
        if c == 'lit':
            return self.literal(R)
        if c == 'var':
            i = rng.choice(vars_)
            return [I('DUP', N(i + 1)) if (i or rng.random() < 0.5) else I('DUP')]
        if c == 'if':
            cond = self.gen(env, T.BOOL, d)
            return cond + [I('IF', self.gen(env, R, d), self.gen(env, R, d))]
        if c == 'failbranch':
            cond = self.gen(env, T.BOOL, d)
            ft = rng.choice([T.STRING, T.NAT, T.pair(T.STRING, T.NAT), T.UNIT])
            fail = self.gen(env, ft, 0) + [I('FAILWITH')]
            good = self.gen(env, R, d)
            return cond + [I('IF', good, fail) if rng.random() < 0.7 else I('IF', fail, good)]
        if c == 'if_none':
            X = self.rtype(1)
            opt = self.gen(env, T.option(X), d)
            return opt + [I('IF_NONE', self.gen(env, R, d), self.gen([X] + env, R, d) + [I('DIP', [I('DROP')])])]
        if c == 'if_left':
            A, B = self.rtype(1), self.rtype(1)
            u = self.gen(env, T.or_(A, B), d)
            return u + [I('IF_LEFT', self.gen([A] + env, R, d) + [I('DIP', [I('DROP')])], self.gen([B] + env, R, d) + [I('DIP', [I('DROP')])])]
        if c == 'if_cons':
            X = self.rtype(1)
            lst = self.gen(env, T.list_(X), d)
            return lst + [I('IF_CONS', self.gen([X, T.list_(X)] + env, R, d) + [I('DIP', [I('DROP', N(2))])], self.gen(env, R, d))]
        if c == 'exec':
            A = self.rtype(1)
            body = self.gen([A], R, d) + [I('DIP', [I('DROP')])]
            lam = [I('LAMBDA', TY(A), TY(R), body)]
            arg = self.gen([T.lambda_(A, R)] + env, A, d)
            return lam + arg + [I('EXEC')]
        if c == 'iter':
            X = self.rtype(1)
            kind = rng.choice(['list', 'set', 'map'])
            if kind == 'list':
                ct, et = T.list_(X), X
            elif kind == 'set':
                X = self.ctype(1)
                ct, et = T.set_(X), X
            else:
                K = self.ctype(1)
                ct, et = T.map_(K, X), T.pair(K, X)
            acc0 = self.gen(env, R, d)
            coll = self.gen([R] + env, ct, d)
            body = self.gen([et, R] + env, R, d) + [I('DIP', [I('DROP', N(2))])]
            return acc0 + coll + [I('ITER', body)]
        if c == 'loop':
            # counter loop: acc : n  ->  iterate n times
            n = rng.randint(0, 4)
            acc0 = self.gen(env, R, d)
            body = [I('DIP', self.gen([R] + env, R, d) + [I('DIP', [I('DROP')])]),     # new acc under the counter
                    PUSH(T.INT, 1), I('SWAP'), I('SUB'), I('DUP'), I('GT')]
            # stack inside: counter : acc : env ; DIP computes on acc : env
            return acc0 + [PUSH(T.INT, n), I('DUP'), I('GT'), I('LOOP', body), I('DROP')]
        if c == 'car':
            B = self.rtype(1)
            return self.gen(env, T.pair(R, B), d) + [rng.choice([I('CAR'), I('GET', N(1))])]
        if c == 'cdr':
            A = self.rtype(1)
            return self.gen(env, T.pair(A, R), d) + [rng.choice([I('CDR'), I('GET', N(2))])]
        if c == 'getn':
            k = rng.randint(3, 5)
            idx = rng.randrange(k)
            ts = [self.rtype(0) for _ in range(k)]
            ts[idx] = R
            n = 2 * idx + 1 if idx < k - 1 else 2 * idx
            return self.gen(env, T.pair(*ts), d) + [I('GET', N(n))]
        if c == 'unopt':
            dflt = self.gen(env, R, d)
            return self.gen(env, T.option(R), d) + [I('IF_NONE', dflt, [])]
        return self.op(c, env, R, d)

    def build_unpushable(self, env, R, depth):
        # types that cannot be pushed and for which depth is exhausted: build structurally
        p = R[0]
        if p == 'pair':
            return self.gen(env, R[2], 0) + self.gen([R[2]] + env, R[1], 0) + [I('PAIR')]
        if p == 'option':
            return [I('NONE', TY(R[1]))]
        if p == 'list':
            return [I('NIL', TY(R[1]))]
        if p == 'or':
            return self.gen(env, R[1], 0) + [I('LEFT', TY(R[2]))]
        if p == 'map':
            return [I('EMPTY_MAP', TY(R[1]), TY(R[2]))]
        if p == 'lambda':
            return [I('LAMBDA', TY(R[1]), TY(R[2]), self.gen([R[1]], R[2], 0) + [I('DIP', [I('DROP')])])]
        raise AssertionError('cannot build %r' % (R,))

    def ops_for(self, R):
        p = R[0]
        ops = {
            'nat': ['ADD nat nat', 'MUL nat nat', 'ABS', 'SIZE string', 'SIZE bytes', 'SIZE list', 'SIZE set', 'SIZE map', 'AND nat nat',
                    'OR nat nat', 'XOR nat nat', 'LSL nat', 'LSR nat', 'LEVEL', 'NAT bytes', 'AND int nat', 'TOTAL_VOTING_POWER', 'MIN_BLOCK_TIME',
                    'EDIV-q nat', 'EDIV-r nat'],
            'int': ['ADD int int', 'ADD nat int', 'SUB int int', 'SUB nat nat', 'MUL int nat', 'NEG int', 'NEG nat', 'NOT int', 'NOT nat',
                    'COMPARE', 'COMPARE', 'COMPARE', 'INT nat', 'INT bytes', 'SUB timestamp timestamp'],
            'bool': ['CMP EQ', 'CMP NEQ', 'CMP LT', 'CMP GT', 'CMP LE', 'CMP GE', 'AND bool', 'OR bool', 'XOR bool', 'NOT bool', 'MEM set', 'MEM map'],
            'string': ['CONCAT string', 'CONCAT-list string'],
            'bytes': ['CONCAT bytes', 'PACK', 'PACK', 'BLAKE2B', 'SHA256', 'SHA512', 'SHA3', 'KECCAK', 'BYTES nat', 'BYTES int', 'AND bytes', 'OR bytes',
                      'XOR bytes', 'NOT bytes', 'LSL bytes', 'LSR bytes'],
            'mutez': ['ADD mutez', 'AMOUNT', 'BALANCE', 'MUL mutez nat', 'SUB mutez'],
            'timestamp': ['NOW', 'ADD timestamp int', 'SUB timestamp int'],
            'address': ['SENDER', 'SOURCE', 'SELF_ADDRESS', 'IMPLICIT_ACCOUNT;ADDRESS'],
            'chain_id': ['CHAIN_ID'],
            'key_hash': [],
            'unit': ['UNIT'],
            'pair': ['PAIR', 'PAIR', 'UPDATE n'],
            'option': ['SOME', 'SOME', 'NONE', 'GET map', 'SLICE', 'ISNAT', 'EDIV', 'SUB_MUTEZ', 'UNPACK', 'GET_AND_UPDATE-old'],
            'or': ['LEFT', 'RIGHT'],
            'list': ['NIL', 'CONS', 'CONS', 'MAP list', 'ITER-rev'],
            'set': ['EMPTY_SET', 'UPDATE set', 'UPDATE set', 'UPDATE set'],
            'map': ['EMPTY_MAP', 'UPDATE map', 'UPDATE map', 'UPDATE map', 'MAP map', 'GET_AND_UPDATE-map'],
            'lambda': ['LAMBDA', 'APPLY'],
        }
        return ops.get(p, [])

    def two(self, env, A, B, d):
        """code pushing B then A (A on top)."""
        cb = self.gen(env, B, d)
        ca = self.gen([B] + env, A, d)
        return cb + ca

    def op(self, c, env, R, d):
        rng = self.rng
        g = self.gen
        name = c.split()
        o = name[0]
        if c in ('ADD nat nat', 'MUL nat nat', 'AND nat nat', 'OR nat nat', 'XOR nat nat'):
            return self.two(env, T.NAT, T.NAT, d) + [I(o)]
        if c == 'ABS':
            return g(env, T.INT, d) + [I('ABS')]
        if o == 'SIZE':
            t = {'string': T.STRING, 'bytes': T.BYTES, 'list': T.list_(self.rtype(1)), 'set': T.set_(self.ctype(1)), 'map': T.map_(self.ctype(1), self.rtype(1))}[name[1]]
            return g(env, t, d) + [I('SIZE')]
        if c in ('LSL nat', 'LSR nat'):
            return [PUSH(T.NAT, rng.choice([0, 1, 8, 255, 256, 257]))] + g([T.NAT] + env, T.NAT, d) + [I(o)]
        if c in ('LEVEL', 'TOTAL_VOTING_POWER', 'MIN_BLOCK_TIME', 'AMOUNT', 'BALANCE', 'NOW', 'SENDER', 'SOURCE', 'SELF_ADDRESS', 'CHAIN_ID', 'UNIT'):
            return [I(o)]
        if c == 'NAT bytes':
            return g(env, T.BYTES, d) + [I('NAT')]
        if c == 'AND int nat':
            return self.two(env, T.INT, T.NAT, d) + [I('AND')]
        if c in ('EDIV-q nat', 'EDIV-r nat'):
            return self.two(env, T.NAT, T.NAT, d) + [I('EDIV'), I('IF_NONE', [PUSH(T.NAT, 0)], [I('CAR') if 'q' in c else I('CDR')])]
        if c == 'ADD int int':
            return self.two(env, T.INT, T.INT, d) + [I('ADD')]
        if c == 'ADD nat int':
            return self.two(env, T.NAT, T.INT, d) + [I('ADD')]
        if c == 'SUB int int':
            return self.two(env, T.INT, T.INT, d) + [I('SUB')]
        if c == 'SUB nat nat':
            return self.two(env, T.NAT, T.NAT, d) + [I('SUB')]
        if c == 'MUL int nat':
            return self.two(env, T.INT, T.NAT, d) + [I('MUL')]
        if c in ('NEG int', 'NOT int'):
            return g(env, T.INT, d) + [I(o)]
        if c in ('NEG nat', 'NOT nat', 'INT nat'):
            return g(env, T.NAT, d) + [I(o)]
        if c == 'INT bytes':
            return g(env, T.BYTES, d) + [I('INT')]
        if c == 'SUB timestamp timestamp':
            return self.two(env, T.TIMESTAMP, T.TIMESTAMP, d) + [I('SUB')]
        if c == 'COMPARE':
            t = self.ctype(2)
            return self.two(env, t, t, d) + [I('COMPARE')]
        if o == 'CMP':
            return g(env, T.INT, d) + [I(name[1])]
        if c in ('AND bool', 'OR bool', 'XOR bool'):
            return self.two(env, T.BOOL, T.BOOL, d) + [I(o)]
        if c == 'NOT bool':
            return g(env, T.BOOL, d) + [I('NOT')]
        if c == 'MEM set':
            k = self.ctype(1)
            return self.two(env, k, T.set_(k), d) + [I('MEM')]
        if c == 'MEM map':
            k = self.ctype(1)
            return self.two(env, k, T.map_(k, self.rtype(1)), d) + [I('MEM')]
        if c in ('CONCAT string', 'CONCAT bytes'):
            return self.two(env, R, R, d) + [I('CONCAT')]
        if c == 'CONCAT-list string':
            return g(env, T.list_(T.STRING), d) + [I('CONCAT')]
        if c == 'PACK':
            t = G.gen_type(rng, rng.randint(0, 2), 'packable')
            while T.contains(t, 'lambda') or T.contains(t, 'bls12_381_fr') or T.contains(t, 'bls12_381_g1') or T.contains(t, 'bls12_381_g2'):
                t = G.gen_type(rng, 1, 'packable')
            return g(env, t, d) + [I('PACK')]
        if c in ('BLAKE2B', 'SHA256', 'SHA512', 'SHA3', 'KECCAK', 'NOT bytes'):
            return g(env, T.BYTES, d) + [I(o)]
        if c == 'BYTES nat':
            return g(env, T.NAT, d) + [I('BYTES')]
        if c == 'BYTES int':
            return g(env, T.INT, d) + [I('BYTES')]
        if c in ('AND bytes', 'OR bytes', 'XOR bytes'):
            return self.two(env, T.BYTES, T.BYTES, d) + [I(o)]
        if c in ('LSL bytes', 'LSR bytes'):
            return [PUSH(T.NAT, rng.choice([0, 1, 7, 8, 9, 20]))] + g([T.NAT] + env, T.BYTES, d) + [I(o)]
        if c == 'ADD mutez':
            return self.two(env, T.MUTEZ, T.MUTEZ, d) + [I('ADD')]
        if c == 'SUB mutez':
            return self.two(env, T.MUTEZ, T.MUTEZ, d) + [I('SUB_MUTEZ'), I('IF_NONE', [PUSH(T.MUTEZ, 0)], [])]
        if c == 'MUL mutez nat':
            return self.two(env, T.MUTEZ, T.NAT, d) + [I('MUL')]
        if c == 'ADD timestamp int':
            return self.two(env, T.TIMESTAMP, T.INT, d) + [I('ADD')]
        if c == 'SUB timestamp int':
            return self.two(env, T.TIMESTAMP, T.INT, d) + [I('SUB')]
        if c == 'IMPLICIT_ACCOUNT;ADDRESS':
            return g(env, T.KEY_HASH, d) + [I('IMPLICIT_ACCOUNT'), I('ADDRESS')]
        if c == 'PAIR':
            return self.two(env, R[1], R[2], d) + [I('PAIR')]
        if c == 'UPDATE n':
            leaves = T.comb_types(R)
            idx = rng.randrange(len(leaves))
            n = 2 * idx + 1 if idx < len(leaves) - 1 else 2 * idx
            return g(env, R, d) + g([R] + env, leaves[idx], d) + [I('UPDATE', N(n))]
        if c == 'SOME':
            return g(env, R[1], d) + [I('SOME')]
        if c == 'NONE':
            return [I('NONE', TY(R[1]))]
        if c == 'GET map':
            k = self.ctype(1)
            return self.two(env, k, T.map_(k, R[1]), d) + [I('GET')]
        if c == 'GET_AND_UPDATE-old':
            k = self.ctype(1)
            m = T.map_(k, R[1])
            return g(env, m, d) + g([m] + env, R, d) + g([R, m] + env, k, d) + [I('GET_AND_UPDATE'), I('DIP', [I('DROP')])]
        if c == 'SLICE':
            if R[1] not in (T.STRING, T.BYTES):
                return g(env, R[1], d) + [I('SOME')]
            return g(env, R[1], d) + [PUSH(T.NAT, rng.choice([0, 1, 2, 5])), PUSH(T.NAT, rng.choice([0, 1, 2, 5])), I('SLICE')]
        if c == 'ISNAT':
            if R[1] != T.NAT:
                return [I('NONE', TY(R[1]))]
            return g(env, T.INT, d) + [I('ISNAT')]
        if c == 'EDIV':
            if R[1] == T.pair(T.NAT, T.NAT):
                return self.two(env, T.NAT, T.NAT, d) + [I('EDIV')]
            if R[1] == T.pair(T.INT, T.NAT):
                return self.two(env, T.INT, rng.choice([T.INT, T.NAT]), d) + [I('EDIV')]
            if R[1] == T.pair(T.MUTEZ, T.MUTEZ):
                return self.two(env, T.MUTEZ, T.NAT, d) + [I('EDIV')]
            if R[1] == T.pair(T.NAT, T.MUTEZ):
                return self.two(env, T.MUTEZ, T.MUTEZ, d) + [I('EDIV')]
            return g(env, R[1], d) + [I('SOME')]
        if c == 'SUB_MUTEZ':
            if R[1] != T.MUTEZ:
                return [I('NONE', TY(R[1]))]
            return self.two(env, T.MUTEZ, T.MUTEZ, d) + [I('SUB_MUTEZ')]
        if c == 'UNPACK':
            t = R[1]
            if not T.packable(t) or T.contains(t, 'lambda') or T.contains(t, 'bls12_381_fr'):
                return [I('NONE', TY(t))]
            if rng.random() < 0.3:
                return g(env, T.BYTES, d) + [I('UNPACK', TY(t))]
            return g(env, t, d) + [I('PACK'), I('UNPACK', TY(t))]
        if c == 'LEFT':
            return g(env, R[1], d) + [I('LEFT', TY(R[2]))]
        if c == 'RIGHT':
            return g(env, R[2], d) + [I('RIGHT', TY(R[1]))]
        if c == 'NIL':
            return [I('NIL', TY(R[1]))]
        if c == 'CONS':
            return g(env, R, d) + g([R] + env, R[1], d) + [I('CONS')]
        if c == 'MAP list':
            X = self.rtype(1)
            src = T.list_(X)
            body = g([X] + env, R[1], d) + [I('DIP', [I('DROP')])]
            return g(env, src, d) + [I('MAP', body)]
        if c == 'ITER-rev':
            return [I('NIL', TY(R[1]))] + g([R] + env, R, d) + [I('ITER', [I('CONS')])]
        if c == 'EMPTY_SET':
            return [I('EMPTY_SET', TY(R[1]))]
        if c == 'UPDATE set':
            return g(env, R, d) + g([R] + env, T.BOOL, d) + g([T.BOOL, R] + env, R[1], d) + [I('UPDATE')]
        if c == 'EMPTY_MAP':
            return [I('EMPTY_MAP', TY(R[1]), TY(R[2]))]
        if c == 'UPDATE map':
            ov = T.option(R[2])
            return g(env, R, d) + g([R] + env, ov, d) + g([ov, R] + env, R[1], d) + [I('UPDATE')]
        if c == 'GET_AND_UPDATE-map':
            ov = T.option(R[2])
            return g(env, R, d) + g([R] + env, ov, d) + g([ov, R] + env, R[1], d) + [I('GET_AND_UPDATE'), I('DROP')]
        if c == 'MAP map':
            X = self.rtype(1)
            src = T.map_(R[1], X)
            body = g([T.pair(R[1], X)] + env, R[2], d) + [I('DIP', [I('DROP')])]
            return g(env, src, d) + [I('MAP', body)]
        if c == 'LAMBDA':
            body = g([R[1]], R[2], d) + [I('DIP', [I('DROP')])]
            return [I('LAMBDA', TY(R[1]), TY(R[2]), body)]
        if c == 'APPLY':
            C = rng.choice([T.NAT, T.STRING, T.pair(T.NAT, T.STRING), T.INT])
            arg = T.pair(C, R[1])
            body = g([arg], R[2], d) + [I('DIP', [I('DROP')])]
            return [I('LAMBDA', TY(arg), TY(R[2]), body)] + g([T.lambda_(arg, R[2])] + env, C, min(d, 1)) + [I('APPLY')]
        raise AssertionError('no production ' + c)
