"""C28 — multi-node rotation regardless of failures. Outcome sequences enumerated exhaustively against the
scripted transport; the oracle looks at the URL of every HTTP request."""
import itertools

import requests

from rv.hooks import rpc as R

LEVEL = 'fault_enumeration'
SHARDS = {'quick': 1, 'thorough': 4}
OUTCOMES = ['ok', 'e404', 'e500', 'e401', 'conn', 'transient_ok', 'proto500', 'timeout']


def judge(ctx, n, seq, layout=None, addressing='plain'):
    """layout: optional list of node indices, e.g. [0, 0, 1] = the same address configured twice (a weighted rotation)."""
    from pytezos.rpc.node import RpcError, RpcMultiNode
    # node addresses with and without a path prefix (https://rpc.tzkt.io/mainnet is of the second kind), some on the same host
    forms = ['http://n%d.test', 'http://shared.test/net%d', 'http://n%d.test:8732', 'http://shared.test/a/b%d/']
    uris = [forms[(i + len(seq)) % len(forms) if addressing == 'mixed' else 0] % i for i in (layout or range(n))]
    n = len(uris)
    state = {'call': -1, 'sub': 0}

    def handler(method, url, kwargs):
        o = seq[state['call']]
        state['sub'] += 1
        if o == 'ok':
            return R.make_response(200, {'ok': 1})
        if o == 'e404':
            return R.make_response(404, text='nf', ctype='text/plain')
        if o == 'e401':
            return R.make_response(401, text='no', ctype='text/plain')
        if o == 'e500':
            return R.make_response(500, [{'kind': 'permanent', 'id': 'node.x'}])
        if o == 'proto500':
            return R.make_response(500, [{'kind': 'temporary', 'id': 'proto.alpha.tez.subtraction_underflow'}])
        if o == 'conn':
            raise requests.exceptions.ConnectionError('refused')
        if o == 'timeout':
            raise requests.exceptions.ReadTimeout('timed out')
        if o == 'transient_ok':
            if state['sub'] == 1:
                return R.make_response(503, [{'kind': 'temporary', 'id': 'node.busy'}])
            return R.make_response(200, {'ok': 2})
        raise KeyError(o)

    t = R.Transport(handler)
    node = RpcMultiNode(list(uris))
    marks = []
    with R.installed(t):
        for i, o in enumerate(seq):
            state['call'], state['sub'] = i, 0
            marks.append(len(t.log))
            try:
                if i % 2:
                    node.get('/chains/main/blocks/head/header')
                else:
                    node.post('/x', json={})
            except RpcError:
                pass
            except (requests.exceptions.ConnectionError, requests.exceptions.Timeout):
                pass
    marks.append(len(t.log))
    case = {'nodes': n, 'outcomes': list(seq), 'layout': layout, 'addressing': addressing}
    if addressing != 'plain':
        ctx.count('histories_with_path_prefixed_addresses')
    if layout:
        ctx.count('histories_with_an_address_configured_twice')
    fails = sum(1 for o in seq[:-1] if o not in ('ok',))
    ctx.case((n, tuple(seq), tuple(layout or ()), addressing), nontrivial=n > 1 and fails > 0)
    targets = []
    for i in range(len(seq)):
        reqs = [e for e in t.log[marks[i]:marks[i + 1]] if e[0] == 'req']
        ctx.count('http_requests', len(reqs))
        if not reqs:
            return ctx.violation('C28|no-request', 'call %d issued no HTTP request' % i, case)
        first = reqs[0][2]
        targets.append(first)
        if not first.startswith(uris[i % n].rstrip('/') + '/'):
            prev = seq[i - 1] if i else 'start'
            return ctx.violation('C28|wrong-node|after-' + prev,
                                 'request %d went to %s, expected node %d (%s); outcomes=%r' % (i, first, i % n, uris[i % n], seq),
                                 case)
        if any(not r[2].startswith(uris[i % n].rstrip('/') + '/') for r in reqs[1:]):
            other = next(r[2] for r in reqs[1:] if not r[2].startswith(uris[i % n].rstrip('/') + '/'))
            return ctx.violation('C28|request-also-sent-to-another-node|after-' + seq[i], 'request %d belongs to node %d (%s), it was also sent to %s' % (i, i % n, uris[i % n], other), case)
    if len(ctx.samples) < ctx.max_samples:
        ctx.samples.append({'case': case, 'targets': targets})
    ctx.count('histories_checked')


def judge_pool_clients(ctx, n, plan):
    """Clients made by the public constructor `pytezos.using(shell='<network>.pool')` for a configured network of n addresses.
    plan = list of (client number, outcome): requests are issued in that order, each by the named client; every client's own
    i-th request must reach node i mod n, whatever other clients of the same network did before or in between."""
    import pytezos
    from pytezos.context import mixin
    from pytezos.rpc.node import RpcError
    net = 'rvnet%d' % n
    uris = ['http://pool%d.test' % i for i in range(n)]
    mixin.nodes[net] = list(uris)
    state = {'o': 'ok'}

    def handler(method, url, kwargs):
        if state['o'] == 'ok':
            return R.make_response(200, {'ok': 1})
        if state['o'] == 'e500':
            return R.make_response(500, [{'kind': 'permanent', 'id': 'node.x'}])
        raise requests.exceptions.ConnectionError('refused')

    t = R.Transport(handler)
    clients, sent = {}, {}
    case = {'pool_clients': True, 'nodes': n, 'plan': [list(p) for p in plan]}
    ctx.case(('pool', n, tuple(plan)), nontrivial=len({c for c, _ in plan}) > 1)
    ctx.count('pool_client_histories')
    try:
        with R.installed(t):
            for c, o in plan:
                if c not in clients:
                    clients[c] = pytezos.pytezos.using(shell=net + '.pool')
                    sent[c] = 0
                state['o'] = o
                before = len(t.log)
                try:
                    clients[c].shell.node.get('/chains/main/blocks/head/header')
                except (RpcError, requests.exceptions.ConnectionError):
                    pass
                reqs = [e for e in t.log[before:] if e[0] == 'req']
                ctx.count('http_requests', len(reqs))
                i = sent[c]
                sent[c] += 1
                if not reqs:
                    return ctx.violation('C28|no-request|pool-client', 'client %d request %d issued no HTTP request' % (c, i), case)
                if not reqs[0][2].startswith(uris[i % n] + '/'):
                    return ctx.violation('C28|wrong-node|pool-client|%s' % ('fresh-client' if i == 0 else 'other-client-in-between'),
                                         'request %d of client %d went to %s, expected node %d (%s)' % (i, c, reqs[0][2], i % n, uris[i % n]), case)
    finally:
        mixin.nodes.pop(net, None)
    ctx.count('histories_checked')


def run(ctx):
    maxlen = ctx.pick(5, 7)
    ctx.rule = ('all outcome sequences over %s of length 1..%d (full alphabet to length %d, then {ok,e500,conn,transient_ok}) '
                'for n=1..4 nodes (and node lists of 2..4 entries in which an address is configured more than once), alternating get/post; plus clients made by pytezos.using(shell=<network>.pool) for a configured network of 1..4 addresses, created one after the other and used alternately; non-trivial = more than one node and at least one failing or '
                'retried request before the last one' % (OUTCOMES, maxlen + 2, maxlen))
    ctx.exhaustive = True
    if not R.hooks_reached():
        return ctx.inconc('pytezos.rpc.node no longer exposes requests/sleep')
    i = 0
    for n in (1, 2, 3, 4):
        for L in range(1, maxlen + 3):
            alpha = OUTCOMES if L <= (4 if ctx.quick else 5) else ['ok', 'e500', 'conn', 'transient_ok']
            if L > maxlen:
                alpha = ['ok', 'e500', 'conn']
            for seq in itertools.product(alpha, repeat=L):
                i += 1
                if ctx.mine(i):
                    judge(ctx, n, seq)
    # addresses with path prefixes / ports / shared hosts
    for n in (1, 2, 3, 4):
        for L in range(1, 5):
            for seq in itertools.product(['ok', 'e500', 'conn', 'timeout'], repeat=L):
                i += 1
                if ctx.mine(i):
                    judge(ctx, n, seq, None, 'mixed')
    # node lists in which an address occurs more than once: the i-th request still goes to entry i mod n of the list
    for layout in ([0, 0], [0, 0, 1], [0, 1, 0], [0, 1, 1], [0, 0, 1, 1], [0, 1, 0, 2], [0, 1, 2, 0], [1, 0, 0, 0]):
        for L in range(1, ctx.pick(5, 6) + 1):
            for seq in itertools.product(['ok', 'e500', 'conn'] if L > 3 else ['ok', 'e404', 'conn', 'transient_ok'], repeat=L):
                i += 1
                if ctx.mine(i):
                    judge(ctx, len(layout), seq, layout)
    # clients made by using('<network>.pool'): one after the other, and used alternately
    if ctx.mine(0):
        for n in (1, 2, 3, 4):
            for k in range(0, 2 * n + 1):
                for o in ('ok', 'e500', 'conn'):
                    judge_pool_clients(ctx, n, [(0, o)] * k + [(1, 'ok'), (1, o), (1, 'ok')] + [(2, o)])
            for L in range(2, ctx.pick(5, 7)):
                for who in itertools.product((0, 1), repeat=L):
                    judge_pool_clients(ctx, n, [(c, ('ok', 'e500', 'conn')[(j + L) % 3]) for j, c in enumerate(who)])
    ctx.require('http_requests', 10)
    if ctx.mine(0):
        ctx.require('pool_client_histories', 10)
    ctx.require('histories_with_an_address_configured_twice', 10)
    ctx.require('histories_with_path_prefixed_addresses', 10)


def replay(ctx, case):
    if case.get('pool_clients'):
        return judge_pool_clients(ctx, case['nodes'], [tuple(p) for p in case['plan']])
    judge(ctx, case['nodes'], case['outcomes'], case.get('layout'), case.get('addressing', 'plain'))
