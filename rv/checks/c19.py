"""C19 — macro expansions have their specified Michelson meaning.
Macro text is parsed by the real parser (expansion), executed by the real interpreter on stacks of distinct tagged values,
and the final stack / failure is compared with a direct model of each macro written from the Michelson reference."""
import itertools

from rv.hooks import drive as D
from rv.hooks import extract as X
from rv.model import pack as P
from rv.model import types as T

LEVEL = 'exploration'
SHARDS = {'quick': 2, 'thorough': 8}
_parser = {}


def parse(text):
    if 'p' not in _parser:
        from pytezos.michelson.parse import MichelsonParser
        _parser['p'] = MichelsonParser()
    from pytezos.michelson.parse import michelson_to_micheline
    return michelson_to_micheline(text, parser=_parser['p'])


def fmt(t, v):
    from pytezos.michelson.format import micheline_to_michelson
    return micheline_to_michelson({'prim': 'PUSH', 'args': [T.to_micheline(t), P.render(v, t, 'readable')]}, inline=True)


# ---- pair trees -----------------------------------------------------------------------------------------------------
def trees(n):
    if n == 1:
        return ['x']
    out = []
    for k in range(1, n):
        for l in trees(k):
            for r in trees(n - k):
                out.append((l, r))
    return out


def name_of(tree):
    def left(t):
        return 'A' if t == 'x' else 'P' + left(t[0]) + right(t[1])

    def right(t):
        return 'I' if t == 'x' else 'P' + left(t[0]) + right(t[1])
    return 'P' + left(tree[0]) + right(tree[1]) + 'R'


def build(tree, leaves):
    """leaves: iterator of (type, value) in left-to-right order."""
    if tree == 'x':
        return next(leaves)
    (lt, lv), (rt, rv) = build(tree[0], leaves), build(tree[1], leaves)
    return ('pair', lt, rt), (lv, rv)


def nleaves(tree):
    return 1 if tree == 'x' else nleaves(tree[0]) + nleaves(tree[1])


POISON_TEXTS = ['PUSH nat 1 ; PUSH nat 2 ; PUSH nat 3 ; DIIP { FAIL }', 'PUSH nat 1 ; PUSH nat 2 ; PUSH nat 3 ; PAPPAIIR',
                'PUSH (pair nat nat) (Pair 1 2) ; UNPAPAIR', 'PUSH nat 1 ; PUSH nat 3 ; PUSH nat 2 ; DIP { ASSERT_CMPEQ }',
                'PUSH nat 1 ; PUSH nat 2 ; PUSH nat 3 ; DUUUUP', 'PUSH nat 1 ; PUSH nat 2 ; DIP { FAIL }']
_runs = [0]


def run_text(text):
    it = D.new_interpreter()
    _runs[0] += 1
    if _runs[0] % 4 == 0:
        # every fourth macro runs on an interpreter whose previous cell was a macro that failed half-way
        try:
            if it.execute(parse(POISON_TEXTS[(_runs[0] // 4) % len(POISON_TEXTS)])).error is None:
                it = D.new_interpreter()       # the cell did not fail: not the situation looked for
        except Exception:
            it = D.new_interpreter()
    try:
        code = parse(text)
    except Exception as e:
        return 'parse-error', e
    res = it.execute(code)
    if res.error is not None:
        return 'error', res.error
    try:
        return 'ok', [(X.type_of_class(type(o)), X.value_of(o)) for o in it.stack.items]
    except Exception as e:
        return 'extract-error', e


_FIRST = []


def expect(ctx, family, macro, text, want, case_extra=None, again=False):
    """want: ('ok', stack) | ('fail',)"""
    if not again and len(_FIRST) < 400:
        _FIRST.append((family, macro, text, want))
    if again:
        family = family + '|again-after-other-expansions'
    st, got = run_text(text)
    ctx.count('macro_runs')
    ctx.count('family_' + family)
    ctx.case(text, nontrivial=True)
    case = {'text': text, 'macro': macro, 'family': family}
    if len(ctx.samples) < 4 and family in ('pair-tree', 'set-cxr'):
        ctx.samples.append({'program': text, 'expected': repr(want)[:200]})
    if st == 'parse-error':
        return ctx.violation('C19|%s|not-accepted-by-parser' % family, '%s: %r' % (macro, got), case)
    if want[0] == 'fail':
        if st != 'error':
            ctx.violation('C19|%s|should-fail' % family, '%s: finished with %r' % (macro, got), case)
        return
    if st != 'ok':
        return ctx.violation('C19|%s|fails' % family, '%s: %r' % (macro, got), case)
    if [v for _, v in got] != [v for _, v in want[1]]:
        return ctx.violation('C19|%s|wrong-stack' % family, '%s: got %r expected %r' % (macro, [v for _, v in got], [v for _, v in want[1]]), case)
    if [t for t, _ in got] != [t for t, _ in want[1]]:
        ctx.violation('C19|%s|wrong-types' % family, '%s: got %r expected %r' % (macro, [t for t, _ in got], [t for t, _ in want[1]]), case)


def tagged(n, base=10):
    return [(T.NAT, base + i) for i in range(n)]


def pushes(items):
    """Program text pushing items so that items[0] ends on top."""
    return ' ; '.join(fmt(t, v) for t, v in reversed(items))


def path_tree(path):
    """Minimal pair type/value having the given C[AD]+R path; every leaf a distinct nat."""
    counter = itertools.count(100)

    def go(p):
        if not p:
            return (T.NAT, next(counter))
        if p[0] == 'A':
            (lt, lv) = go(p[1:])
            (rt, rv) = (T.NAT, next(counter))
        else:
            (lt, lv) = (T.NAT, next(counter))
            (rt, rv) = go(p[1:])
        return ('pair', lt, rt), (lv, rv)
    return go(path)


def get_path(t, v, path):
    for c in path:
        t, v = (t[1], v[0]) if c == 'A' else (t[2], v[1])
    return t, v


def set_path(t, v, path, nt, nv):
    if not path:
        return nt, nv
    if path[0] == 'A':
        st, sv = set_path(t[1], v[0], path[1:], nt, nv)
        return ('pair', st, t[2]), (sv, v[1])
    st, sv = set_path(t[2], v[1], path[1:], nt, nv)
    return ('pair', t[1], st), (v[0], sv)


def below_stack_case(ctx, t, v, path, lv, rest):
    """What the body of MAP_C..R sees below the mapped component (reference expansions):
    MAP_CAR = { DUP ; CDR ; DIP { CAR ; code } ; SWAP ; PAIR }  -> code runs on  car : S
    MAP_CDR = { DUP ; CDR ; code ; SWAP ; CAR ; PAIR }          -> code runs on  cdr : the pair itself : S"""
    if path[-1] == 'A':
        bt, bv = set_path(t, v, path, T.NAT, lv + 1000)
        expect(ctx, 'map-cxr-body-sees-stack', 'MAP_C%sR' % path, pushes([(t, v), (T.NAT, 1000)] + rest) + ' ; MAP_C%sR { DUP 2 ; ADD }' % path,
               ('ok', [(bt, bv), (T.NAT, 1000)] + rest))
    else:
        _pt, pv = get_path(t, v, path[:-1])
        sibling = pv[0]
        bt, bv = set_path(t, v, path, T.NAT, lv + sibling)
        expect(ctx, 'map-cxr-body-sees-pair', 'MAP_C%sR' % path, pushes([(t, v)] + rest) + ' ; MAP_C%sR { DUP 2 ; CAR ; ADD }' % path,
               ('ok', [(bt, bv)] + rest))


CMP = {'EQ': lambda c: c == 0, 'NEQ': lambda c: c != 0, 'LT': lambda c: c < 0, 'GT': lambda c: c > 0, 'LE': lambda c: c <= 0, 'GE': lambda c: c >= 0}


def run(ctx):
    maxleaves = ctx.pick(5, 7)
    maxpath = ctx.pick(4, 6)
    ctx.rule = ('every pair-tree macro name of the reference grammar with 3..%d leaves (P..R and UNP..R, and UNP..R after P..R = '
                'identity), every C[AD]{2,%d}R path and its SET_ / MAP_ variants, DII+P / DUU+P to depth 6, CMPx / IFx / IFCMPx / '
                'ASSERT* families over all sign cases, IF_SOME, IF_RIGHT, FAIL; with and without annotations; exhaustive over the '
                'name family; ill-formed names accepted by the lenient regular expressions are not judged' % (maxleaves, maxpath))
    ctx.exhaustive = True
    i = 0
    rest = [(T.STRING, 'bottom')]
    # pair trees
    for n in range(3, maxleaves + 1):
        for tree in trees(n):
            i += 1
            if not ctx.mine(i):
                continue
            name = name_of(tree)
            items = tagged(n)
            pt, pv = build(tree, iter(items))
            expect(ctx, 'pair-tree', name, pushes(items + rest) + ' ; ' + name, ('ok', [(pt, pv)] + rest))
            expect(ctx, 'unpair-tree', 'UN' + name, pushes([(pt, pv)] + rest) + ' ; UN' + name, ('ok', items + rest))
            expect(ctx, 'pair-unpair-identity', name + ';UN' + name, pushes(items + rest) + ' ; ' + name + ' ; UN' + name, ('ok', items + rest))
            if n <= 4:
                ann = ' '.join('%%f%d' % k for k in range(n))
                expect(ctx, 'pair-tree-annotated', name, pushes(items + rest) + ' ; ' + name + ' ' + ann, ('ok', [(pt, pv)] + rest))
    # C[AD]+R, SET_C[AD]+R, MAP_C[AD]+R
    for L in range(2, maxpath + 1):
        for path in itertools.product('AD', repeat=L):
            i += 1
            if not ctx.mine(i):
                continue
            path = ''.join(path)
            t, v = path_tree(path)
            lt, lv = get_path(t, v, path)
            expect(ctx, 'cxr', 'C%sR' % path, pushes([(t, v)] + rest) + ' ; C%sR' % path, ('ok', [(lt, lv)] + rest))
            nt, nv = set_path(t, v, path, T.NAT, 7)
            expect(ctx, 'set-cxr', 'SET_C%sR' % path, pushes([(t, v), (T.NAT, 7)] + rest) + ' ; SET_C%sR' % path, ('ok', [(nt, nv)] + rest))
            mt, mv = set_path(t, v, path, T.NAT, lv + 1)
            expect(ctx, 'map-cxr', 'MAP_C%sR' % path, pushes([(t, v)] + rest) + ' ; MAP_C%sR { PUSH nat 1 ; ADD }' % path, ('ok', [(mt, mv)] + rest))
            # a body that reads the caller's stack below the component it maps
            below_stack_case(ctx, t, v, path, lv, rest)
            if L <= 3:
                # type-changing MAP
                ct, cv = set_path(t, v, path, T.INT, lv)
                expect(ctx, 'map-cxr', 'MAP_C%sR' % path, pushes([(t, v)] + rest) + ' ; MAP_C%sR { INT }' % path, ('ok', [(ct, cv)] + rest))
    for path in 'AD':
        t, v = path_tree(path)
        lt, lv = get_path(t, v, path)
        nt, nv = set_path(t, v, path, T.NAT, 7)
        expect(ctx, 'set-cxr', 'SET_C%sR' % path, pushes([(t, v), (T.NAT, 7)] + rest) + ' ; SET_C%sR' % path, ('ok', [(nt, nv)] + rest))
        mt, mv = set_path(t, v, path, T.NAT, lv + 1)
        expect(ctx, 'map-cxr', 'MAP_C%sR' % path, pushes([(t, v)] + rest) + ' ; MAP_C%sR { PUSH nat 1 ; ADD }' % path, ('ok', [(mt, mv)] + rest))
        below_stack_case(ctx, t, v, path, lv, rest)
    # DII+P / DUU+P
    items = tagged(8)
    for n in range(2, 7):
        if not ctx.mine(n):
            continue
        out = items[:n] + [(T.STRING, 'x')] + items[n:]
        expect(ctx, 'diip', 'D%sP' % ('I' * n), pushes(items) + ' ; D%sP { PUSH string "x" }' % ('I' * n), ('ok', out))
        expect(ctx, 'duup', 'D%sP' % ('U' * n), pushes(items) + ' ; D%sP' % ('U' * n), ('ok', [items[n - 1]] + items))
    # DI..IP with an empty body is still DIP n { }: it needs n elements to step over
    for n in range(2, 5):
        for size in range(0, n + 2):
            for body in ('{}', '{ }', '{ {} }'):
                if ctx.mine(n * 7 + size):
                    st = tagged(size)
                    text = (pushes(st) + ' ; ' if st else '') + 'D%sP %s' % ('I' * n, body)
                    expect(ctx, 'diip-empty-body', 'D%sP %s on %d elements' % ('I' * n, body, size), text, ('ok', st) if size >= n else ('fail',))
    # comparison families
    if ctx.mine(0):
        for a, b in ((1, 2), (2, 2), (3, 2), (-1, 0)):
            for op, f in CMP.items():
                c = (a > b) - (a < b)
                two = [(T.INT, a), (T.INT, b)] + rest
                expect(ctx, 'cmp', 'CMP' + op, pushes(two) + ' ; CMP' + op, ('ok', [(T.BOOL, f(c))] + rest))
                expect(ctx, 'ifcmp', 'IFCMP' + op, pushes(two) + ' ; IFCMP%s { PUSH string "t" } { PUSH string "f" }' % op,
                       ('ok', [(T.STRING, 't' if f(c) else 'f')] + rest))
                expect(ctx, 'assert-cmp', 'ASSERT_CMP' + op, pushes(two) + ' ; ASSERT_CMP' + op, ('ok', rest) if f(c) else ('fail',))
                one = [(T.INT, a - b)] + rest
                expect(ctx, 'ifx', 'IF' + op, pushes(one) + ' ; IF%s { PUSH string "t" } { PUSH string "f" }' % op,
                       ('ok', [(T.STRING, 't' if f(a - b) else 'f')] + rest))
                expect(ctx, 'assert-x', 'ASSERT_' + op, pushes(one) + ' ; ASSERT_' + op, ('ok', rest) if f(a - b) else ('fail',))
        for flag in (True, False):
            expect(ctx, 'assert', 'ASSERT', pushes([(T.BOOL, flag)] + rest) + ' ; ASSERT', ('ok', rest) if flag else ('fail',))
        expect(ctx, 'fail', 'FAIL', pushes(rest) + ' ; FAIL', ('fail',))
        on, os_ = (T.option(T.NAT), None), (T.option(T.NAT), ('Some', 5))
        expect(ctx, 'assert-opt', 'ASSERT_NONE', pushes([on] + rest) + ' ; ASSERT_NONE', ('ok', rest))
        expect(ctx, 'assert-opt', 'ASSERT_NONE', pushes([os_] + rest) + ' ; ASSERT_NONE', ('fail',))
        expect(ctx, 'assert-opt', 'ASSERT_SOME', pushes([os_] + rest) + ' ; ASSERT_SOME', ('ok', [(T.NAT, 5)] + rest))
        expect(ctx, 'assert-opt', 'ASSERT_SOME', pushes([on] + rest) + ' ; ASSERT_SOME', ('fail',))
        ol, or_ = (T.or_(T.NAT, T.STRING), ('L', 5)), (T.or_(T.NAT, T.STRING), ('R', 's'))
        expect(ctx, 'assert-or', 'ASSERT_LEFT', pushes([ol] + rest) + ' ; ASSERT_LEFT', ('ok', [(T.NAT, 5)] + rest))
        expect(ctx, 'assert-or', 'ASSERT_LEFT', pushes([or_] + rest) + ' ; ASSERT_LEFT', ('fail',))
        expect(ctx, 'assert-or', 'ASSERT_RIGHT', pushes([or_] + rest) + ' ; ASSERT_RIGHT', ('ok', [(T.STRING, 's')] + rest))
        expect(ctx, 'assert-or', 'ASSERT_RIGHT', pushes([ol] + rest) + ' ; ASSERT_RIGHT', ('fail',))
        expect(ctx, 'if-some', 'IF_SOME', pushes([os_] + rest) + ' ; IF_SOME { INT } { PUSH int -1 }', ('ok', [(T.INT, 5)] + rest))
        expect(ctx, 'if-some', 'IF_SOME', pushes([on] + rest) + ' ; IF_SOME { INT } { PUSH int -1 }', ('ok', [(T.INT, -1)] + rest))
        expect(ctx, 'if-right', 'IF_RIGHT', pushes([or_] + rest) + ' ; IF_RIGHT { SIZE } { }', ('ok', [(T.NAT, 1)] + rest))
        expect(ctx, 'if-right', 'IF_RIGHT', pushes([ol] + rest) + ' ; IF_RIGHT { SIZE } { }', ('ok', [(T.NAT, 5)] + rest))
        # with variable annotations
        expect(ctx, 'cmp', 'CMPEQ @v', pushes([(T.INT, 1), (T.INT, 1)] + rest) + ' ; CMPEQ @v', ('ok', [(T.BOOL, True)] + rest))
        t, v = path_tree('AD')
        expect(ctx, 'cxr', 'CADR @v', pushes([(t, v)] + rest) + ' ; CADR @v', ('ok', [get_path(t, v, 'AD')] + rest))
    # two different D(UU+)P in one program, and the earliest cases of this run once more at the end: an expansion must not depend
    # on which macros were expanded before it in the same process
    if ctx.mine(0):
        for a, b in ((2, 3), (3, 2), (2, 4), (5, 2)):
            expect(ctx, 'duup', 'D%sP;D%sP' % ('U' * a, 'U' * b), pushes(items) + ' ; D%sP ; D%sP' % ('U' * a, 'U' * b),
                   ('ok', [([items[a - 1]] + items)[b - 1], items[a - 1]] + items))
    for fam, macro, text, want in list(_FIRST):
        expect(ctx, fam, macro, text, want, again=True)
        ctx.count('cases_run_again_at_the_end')
    ctx.require('cases_run_again_at_the_end', 50)
    ctx.require('macro_runs', 100)
    for fam in ('pair-tree', 'unpair-tree', 'pair-unpair-identity', 'cxr', 'set-cxr', 'map-cxr', 'diip', 'duup', 'cmp', 'ifcmp', 'assert-cmp', 'ifx',
                'assert-x', 'assert-opt', 'assert-or', 'if-some', 'if-right'):
        ctx.require('family_' + fam, 1)


def replay(ctx, case):
    st, got = run_text(case['text'])
    if st in ('parse-error', 'extract-error'):
        ctx.violation('C19|replay', repr(got), case)
