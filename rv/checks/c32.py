"""C32 — view definitions are accepted exactly when the stated rule accepts them.
Acceptance monitor on ViewSection.match; names and small code trees enumerated."""
import itertools

LEVEL = 'exploration'
SHARDS = {'quick': 2, 'thorough': 16}

ALLOWED = 'abzAZ09_.%@'
FORBIDDEN = [' ', '-', '!', '/', '"', '\n', '#', '$', '(', '{', '\\', 'é', '~', '*', ':', '+']
UNIT_T = {'prim': 'unit'}
OP_T = {'prim': 'operation'}
LAM_T = {'prim': 'lambda', 'args': [UNIT_T, UNIT_T]}

# wrappers: name -> (is_lambda_body, builder(inner_seq) -> instruction)
W = {
    'DIP': (False, lambda c: {'prim': 'DIP', 'args': [c]}),
    'DIPn': (False, lambda c: {'prim': 'DIP', 'args': [{'int': '2'}, c]}),
    'IF.t': (False, lambda c: {'prim': 'IF', 'args': [c, []]}),
    'IF.f': (False, lambda c: {'prim': 'IF', 'args': [[{'prim': 'UNIT'}], c]}),
    'IF_NONE.s': (False, lambda c: {'prim': 'IF_NONE', 'args': [[], c]}),
    'IF_LEFT.l': (False, lambda c: {'prim': 'IF_LEFT', 'args': [c, []]}),
    'IF_CONS.c': (False, lambda c: {'prim': 'IF_CONS', 'args': [c, []]}),
    'LOOP': (False, lambda c: {'prim': 'LOOP', 'args': [c]}),
    'LOOP_LEFT': (False, lambda c: {'prim': 'LOOP_LEFT', 'args': [c]}),
    'ITER': (False, lambda c: {'prim': 'ITER', 'args': [c]}),
    'MAP': (False, lambda c: {'prim': 'MAP', 'args': [c]}),
    'SEQ': (False, lambda c: c),
    'LAMBDA': (True, lambda c: {'prim': 'LAMBDA', 'args': [UNIT_T, UNIT_T, c]}),
    'LAMBDA_REC': (True, lambda c: {'prim': 'LAMBDA_REC', 'args': [UNIT_T, UNIT_T, c]}),
    'PUSH.lambda': (True, lambda c: {'prim': 'PUSH', 'args': [LAM_T, c]}),
    'PUSH.pair-lambda': (True, lambda c: {'prim': 'PUSH', 'args': [{'prim': 'pair', 'args': [{'prim': 'nat'}, LAM_T]},
                                                                    {'prim': 'Pair', 'args': [{'int': '1'}, c]}]}),
    'PUSH.option-lambda': (True, lambda c: {'prim': 'PUSH', 'args': [{'prim': 'option', 'args': [LAM_T]},
                                                                      {'prim': 'Some', 'args': [c]}]}),
    'PUSH.list-lambda': (True, lambda c: {'prim': 'PUSH', 'args': [{'prim': 'list', 'args': [LAM_T]}, [c]]}),
    'PUSH.lambda_rec': (True, lambda c: {'prim': 'PUSH', 'args': [LAM_T, {'prim': 'Lambda_rec', 'args': [c]}]}),
}
CLEAN_SCRIPT = [{'prim': 'parameter', 'args': [UNIT_T]}, {'prim': 'storage', 'args': [UNIT_T]},
                {'prim': 'code', 'args': [[{'prim': 'CDR'}, {'prim': 'NIL', 'args': [OP_T]}, {'prim': 'PAIR'}]]}]
LEAVES = {
    'SELF': ('self', {'prim': 'SELF'}),
    'SELF%ep': ('self', {'prim': 'SELF', 'annots': ['%do']}),
    'TRANSFER_TOKENS': ('restricted', {'prim': 'TRANSFER_TOKENS'}),
    'SET_DELEGATE': ('restricted', {'prim': 'SET_DELEGATE'}),
    'CREATE_CONTRACT': ('restricted', {'prim': 'CREATE_CONTRACT', 'args': [CLEAN_SCRIPT]}),
    'UNIT': ('free', {'prim': 'UNIT'}),
    'SELF_ADDRESS': ('free', {'prim': 'SELF_ADDRESS'}),
    'SENDER': ('free', {'prim': 'SENDER'}),
    'IMPLICIT_ACCOUNT': ('free', {'prim': 'IMPLICIT_ACCOUNT'}),
}


def model_name_ok(name):
    return len(name) <= 31 and all(c in 'abcdefghijklmnopqrstuvwxyzABCDEFGHIJKLMNOPQRSTUVWXYZ0123456789_.%@' for c in name)


def build(wrappers, leaf, position):
    body = [LEAVES[leaf][1]]
    if position == 'after':
        body = [{'prim': 'UNIT'}, {'prim': 'DROP'}] + body
    elif position == 'before':
        body = body + [{'prim': 'DROP'}]
    for w in reversed(wrappers):
        body = [W[w][1](body)]
    return body


def model_code_ok(wrappers, leaf):
    kind = LEAVES[leaf][0]
    if kind == 'self':
        return False
    if kind == 'restricted':
        return any(W[w][0] for w in wrappers)
    return True


def pt_match(name, code):
    from pytezos.michelson.sections.view import ViewSection
    expr = {'prim': 'view', 'args': [{'string': name}, UNIT_T, UNIT_T, code]}
    try:
        ViewSection.match(expr)
        return True, None
    except Exception as e:
        return False, e
    except RecursionError as e:
        return False, e


def judge_edited(ctx, name, code):
    """A definition that was accepted, then edited in place into an invalid one, is judged on what it says now."""
    from pytezos.michelson.sections.view import ViewSection
    import copy
    for how in ('name-too-long', 'name-forbidden-char', 'SELF-added'):
        expr = {'prim': 'view', 'args': [{'string': name}, UNIT_T, UNIT_T, copy.deepcopy(code)]}
        try:
            ViewSection.match(expr)
        except Exception:
            return
        if how == 'name-too-long':
            expr['args'][0]['string'] = 'a' * 40
        elif how == 'name-forbidden-char':
            expr['args'][0]['string'] = 'bad name'
        else:
            expr['args'][3].append({'prim': 'SELF'})
        ctx.count('definitions_matched_again_after_an_edit')
        try:
            ViewSection.match(expr)
            ctx.violation('C32|accepts-invalid|edited-after-a-first-match|' + how, 'name=%r' % expr['args'][0]['string'], {'name': name, 'edited': how})
        except Exception:
            pass


def judge(ctx, name, wrappers, leaf, position='alone', extra=None):
    code = build(wrappers, leaf, position)
    if extra is not None:  # a second, independent subtree in the same view
        code = code + build(*extra)
    want = model_name_ok(name) and model_code_ok(wrappers, leaf) and (extra is None or model_code_ok(extra[0], extra[1]))
    got, err = pt_match(name, code)
    case = {'name': name, 'wrappers': list(wrappers), 'leaf': leaf, 'position': position,
            'extra': [list(extra[0]), extra[1], extra[2]] if extra else None}
    ctx.count('match_calls')
    ctx.count('accepted' if got else 'rejected')
    nontrivial = (not model_name_ok(name)) or LEAVES[leaf][0] != 'free'
    ctx.case((name, tuple(wrappers), leaf, position, repr(extra)), nontrivial=nontrivial)
    if len(ctx.samples) < 4 and len(wrappers) == 2 and LEAVES[leaf][0] == 'restricted':
        ctx.samples.append({'name': name, 'code': code, 'model_accepts': want, 'pytezos_accepts': got})
    if got and want and ctx.evaluations % 5 == 0 and isinstance(code, list):
        judge_edited(ctx, name, code)
    if got != want:
        if not model_name_ok(name) and model_code_ok(wrappers, leaf):
            why = 'name-too-long' if len(name) > 31 else 'name-forbidden-char'
        else:
            lam = [w for w in wrappers if W[w][0]]
            if 'PUSH.lambda_rec' in wrappers and 'unregistered primitive Lambda_rec' in repr(err):
                lam = []
                why = 'Lambda_rec-literal-unregistered'
            else:
              why = 'code|%s|%s' % (LEAVES[leaf][0], ('in:' + lam[0].split('.')[0] + ('.' + lam[0].split('.')[1] if lam[0].startswith('PUSH') else '')) if lam else 'outside-lambda')
        ctx.violation('C32|%s|%s' % ('accepts-invalid' if got else 'rejects-valid', why),
                      'name=%r wrappers=%r leaf=%s model=%s pytezos=%s err=%r' % (name, wrappers, leaf, want, got, err), case)


def run(ctx):
    rng = ctx.rng
    depth = ctx.pick(2, 3)
    ctx.rule = ('names: every length 0..40 over allowed characters, each forbidden character %r at every position of names of '
                'length 1..33; code: every chain of <=%d wrappers out of %d (control structures, LAMBDA, LAMBDA_REC, PUSH of '
                'lambda literals direct / in pair / option / list / Lambda_rec) around each of %d leaves, at three positions, '
                'plus random deeper chains and two-subtree views; non-trivial = name invalid or leaf is SELF/restricted; '
                'nested CREATE_CONTRACT scripts are kept free of restricted instructions'
                % (FORBIDDEN, depth, len(W), len(LEAVES)))
    ctx.exhaustive = True
    i = 0
    # names
    for L in range(0, 41):
        for fill in ('a', 'Z9', '_.%@'):
            name = (fill * 41)[:L]
            i += 1
            if ctx.mine(i):
                judge(ctx, name, [], 'UNIT')
                judge(ctx, name, ['LAMBDA'], 'SET_DELEGATE')
    for L in list(range(1, 34)):
        for ch in FORBIDDEN:
            for pos in ({0, L - 1, L // 2} if ctx.quick and L > 4 else range(L)):
                i += 1
                if ctx.mine(i):
                    name = ''.join(ch if p == pos else ALLOWED[p % len(ALLOWED)] for p in range(L))
                    judge(ctx, name, [], 'UNIT')
    # code trees
    wnames = [w for w in W if w != 'PUSH.lambda_rec']  # Lambda_rec literals: separate, narrow family below
    for chain in ([['PUSH.lambda_rec']] + [[w, 'PUSH.lambda_rec'] for w in ('DIP', 'IF.t', 'LAMBDA')]):
        for leaf in LEAVES:
            judge(ctx, 'v', chain, leaf, 'alone')
    for d in range(0, depth + 1):
        for chain in itertools.product(wnames, repeat=d):
            for leaf in LEAVES:
                i += 1
                if not ctx.mine(i):
                    continue
                for position in (('alone',) if d == depth and ctx.quick else ('alone', 'after', 'before')):
                    judge(ctx, 'v', chain, leaf, position)
    for _ in range(ctx.pick(1500, 40000) // ctx.nshards):
        chain = [rng.choice(wnames) for _ in range(rng.randint(depth + 1, 7))]
        leaf = rng.choice(list(LEAVES))
        extra = None
        if rng.random() < 0.5:
            extra = ([rng.choice(wnames) for _ in range(rng.randint(0, 3))], rng.choice(list(LEAVES)), 'alone')
        name = rng.choice(['v', 'get_balance', 'a' * 31, 'a' * 32, 'x y', 'a.b%c@d_1'])
        judge(ctx, name, chain, leaf, rng.choice(['alone', 'after', 'before']), extra)
    ctx.require('match_calls', 500)
    ctx.require('accepted', 50)
    ctx.require('rejected', 50)


def replay(ctx, case):
    if case.get('edited'):
        return judge_edited(ctx, case['name'], [{'prim': 'UNIT'}])
    ex = case.get('extra')
    judge(ctx, case['name'], case['wrappers'], case['leaf'], case['position'], (ex[0], ex[1], ex[2]) if ex else None)
