"""C11 — typed values round-trip through readable / optimized / legacy-optimized Micheline.
Three-mode round-trip monitor + independent rendering model for the layout rules the property states."""
from rv.gen import typed as G
from rv.hooks import drive as D
from rv.hooks import extract as X
from rv.model import pack as P
from rv.model import types as T

LEVEL = 'exploration'
SHARDS = {'quick': 4, 'thorough': 16}
MODES = ['readable', 'optimized', 'legacy_optimized']


def shape(e, t):
    """Structure of a rendering with leaf spellings reduced to their literal kind (bls12_381_fr: not demanded)."""
    p = t[0]
    if p == 'bls12_381_fr':
        return 'fr'
    if isinstance(e, list):
        if p == 'pair':
            items, tt = [], t
            for x in e[:-1]:
                items.append(shape(x, tt[1]) if tt[0] == 'pair' else '?')
                tt = tt[2] if tt[0] == 'pair' else tt
            items.append(shape(e[-1], tt))
            return ('seq-comb', tuple(items))
        if p in ('list', 'set'):
            return ('seq', tuple(shape(x, t[1]) for x in e))
        if p in ('map', 'big_map'):
            return ('seq', tuple(('Elt', shape(x['args'][0], t[1]), shape(x['args'][1], t[2])) if isinstance(x, dict) and x.get('prim') == 'Elt' else '?' for x in e))
        return ('seq', len(e))  # lambda code
    if not isinstance(e, dict):
        return '?'
    if 'prim' in e:
        a = e.get('args') or []
        if e['prim'] == 'Pair' and p == 'pair':
            items, tt = [], t
            for x in a[:-1]:
                items.append(shape(x, tt[1]) if tt[0] == 'pair' else '?')
                tt = tt[2] if tt[0] == 'pair' else tt
            items.append(shape(a[-1], tt) if a else '?')
            return ('Pair', tuple(items))
        if e['prim'] == 'Some' and p == 'option':
            return ('Some', shape(a[0], t[1]))
        if e['prim'] in ('Left', 'Right') and p == 'or':
            return (e['prim'], shape(a[0], t[1] if e['prim'] == 'Left' else t[2]))
        return (e['prim'],)
    for k in ('int', 'string', 'bytes'):
        if k in e:
            return k
    return '?'


def feature(t, v, mode):
    f = []
    for x in G_subtypes(t):
        if x[0] == 'timestamp':
            f.append('timestamp')
            break
    n = max([len(T.comb_types(x)) for x in G_subtypes(t) if x[0] == 'pair'] or [0])
    if n >= 3:
        f.append('comb%d' % min(n, 4))
    return '+'.join(f) or t[0]


def G_subtypes(t):
    yield t
    for a in t[1:]:
        yield from G_subtypes(a)


def ts_class(v):
    if P.ts_in_rfc_range(v):
        return 'in-range'
    return 'before-year-1000' if v < P.TS_MIN else 'after-year-9999'


def find_ts(v, t, out):
    p = t[0]
    if p == 'timestamp':
        out.add(ts_class(v))
    elif p == 'pair':
        find_ts(v[0], t[1], out)
        find_ts(v[1], t[2], out)
    elif p == 'option' and v is not None:
        find_ts(v[1], t[1], out)
    elif p == 'or':
        find_ts(v[1], t[1] if v[0] == 'L' else t[2], out)
    elif p in ('list', 'set'):
        for x in v:
            find_ts(x, t[1], out)
    elif p == 'map':
        for k, x in v:
            find_ts(k, t[1], out)
            find_ts(x, t[2], out)


def explicit_default(e, t):
    """Readable literal in which addresses without an entrypoint are spelled with an explicit %default."""
    p = t[0]
    if p in ('address', 'contract') and isinstance(e, dict) and 'string' in e and '%' not in e['string']:
        return {'string': e['string'] + '%default'}
    if isinstance(e, list):
        if p in ('list', 'set'):
            return [explicit_default(x, t[1]) for x in e]
        if p == 'map':
            return [{'prim': 'Elt', 'args': [explicit_default(x['args'][0], t[1]), explicit_default(x['args'][1], t[2])]} for x in e]
        return e
    if isinstance(e, dict) and 'prim' in e and e.get('args'):
        a = e['args']
        if p == 'pair' and e['prim'] == 'Pair':
            items, tt = [], t
            for x in a[:-1]:
                items.append(explicit_default(x, tt[1]))
                tt = tt[2]
            items.append(explicit_default(a[-1], tt))
            return {'prim': 'Pair', 'args': items}
        if p == 'option' and e['prim'] == 'Some':
            return {'prim': 'Some', 'args': [explicit_default(a[0], t[1])]}
        if p == 'or' and e['prim'] in ('Left', 'Right'):
            return {'prim': e['prim'], 'args': [explicit_default(a[0], t[1] if e['prim'] == 'Left' else t[2])]}
    return e


def judge(ctx, t, v, annot=None, spelled_default=False):
    case = {'type_expr': T.to_micheline(t, annot), 'value': P.render(v, t, 'optimized')}
    tss = set()
    find_ts(v, t, tss)
    tsf = ('|ts:' + '+'.join(sorted(tss - {'in-range'}))) if tss - {'in-range'} else ''
    try:
        cls = D.mk_type(t, annot)
        if spelled_default:
            obj = cls.from_micheline_value(explicit_default(P.render(v, t, 'readable'), t))
            ctx.count('values_spelled_with_explicit_default')
        else:
            obj = cls.from_micheline_value(P.render(v, t, 'optimized'))
    except Exception as e:
        ctx.case((T.show(t), repr(v)), nontrivial=False)
        return ctx.violation('C11|cannot-build-value|%s|%s%s' % (type(e).__name__, feature(t, v, ''), tsf), repr(e)[:300], case)
    try:
        if X.value_of(obj) != v:
            return ctx.violation('C11|optimized-literal-misread|' + feature(t, v, ''), 'built %r from %r' % (X.value_of(obj), v), case)
    except X.ExtractError as e:
        return ctx.violation('C11|extract|' + feature(t, v, ''), repr(e), case)
    for mode in MODES:
        ctx.count('roundtrips')
        ctx.count('mode_' + mode)
        ctx.case((T.show(t), repr(v), mode), nontrivial=T.depth(t) >= 2 or bool(tss - {'in-range'}))
        mcase = dict(case, mode=mode)
        try:
            r = obj.to_micheline_value(mode=mode)
        except Exception as e:
            ctx.violation('C11|render-raises|%s|%s|%s%s' % (mode, type(e).__name__, feature(t, v, mode), tsf), repr(e)[:300], mcase)
            continue
        try:
            back = cls.from_micheline_value(r)
            bv = X.value_of(back)
        except Exception as e:
            ctx.violation('C11|parse-back-raises|%s|%s|%s%s' % (mode, type(e).__name__, feature(t, v, mode), tsf), '%r rendering=%r' % (e, r), mcase)
            continue
        if bv != v:
            ctx.violation('C11|roundtrip-differs|%s|%s%s' % (mode, feature(t, v, mode), tsf), 'got %r want %r rendering=%r' % (bv, v, r), mcase)
            continue
        try:
            own = T.comparable(t) and not (back == obj)
        except Exception:
            own = False
        if own:
            ctx.violation('C11|roundtrip-not-equal-by-own-equality|%s|%s' % (mode, feature(t, v, mode)), 'rendering=%r' % (r,), mcase)
            continue
        want = P.render(v, t, mode)
        try:
            sg, sw = shape(r, t), shape(want, t)
        except Exception as e:
            ctx.violation('C11|layout-unreadable|' + mode, repr(e)[:200] + ' rendering=%r' % (r,), mcase)
            continue
        ctx.count('layouts_compared')
        if sg != sw:
            ctx.violation('C11|layout-differs|%s|%s%s' % (mode, feature(t, v, mode), tsf), 'pytezos=%r model=%r' % (r, want), mcase)
    if len(ctx.samples) < 3 and T.depth(t) >= 3:
        ctx.samples.append({'type': T.show(t), 'readable': P.render(v, t, 'readable'), 'optimized': P.render(v, t, 'optimized')})


def judge_big_map(ctx, t, v):
    """Storable types holding big_map literals: rendered with their contents (lazy_diff=True, what origination and run_code use)
    in the three modes and read back."""
    from rv.core.lockstep import norm_value
    lit = P.render(v, t, 'readable')
    case = {'type_expr': T.to_micheline(t), 'value': lit, 'lazy_diff': True}
    try:
        cls = D.mk_type(t)
        obj = cls.from_micheline_value(lit)
    except Exception as e:
        return ctx.violation('C11|cannot-build-value|%s|big_map' % type(e).__name__, repr(e)[:300], case)
    for mode in MODES:
        ctx.count('roundtrips')
        ctx.count('big_map_roundtrips')
        ctx.case((T.show(t), repr(v), mode, 'lazy'), nontrivial=True)
        try:
            r = obj.to_micheline_value(mode=mode, lazy_diff=True)
            back = X.value_of(cls.from_micheline_value(r))
        except Exception as e:
            ctx.violation('C11|render-raises|%s|%s|big_map-literal' % (mode, type(e).__name__), repr(e)[:300], dict(case, mode=mode))
            continue
        if norm_value(back, t) != norm_value(v, t):
            ctx.violation('C11|roundtrip-differs|%s|big_map-literal' % mode, 'got %r want %r rendering=%r' % (back, v, r), dict(case, mode=mode))


def run(ctx):
    rng = ctx.rng
    n = ctx.pick(3000, 200000) // ctx.nshards
    ctx.rule = ('storable/passable types depth<=%d (combs 2..6, collections with composite keys, all domain leaf types) with '
                'boundary values (ints of thousands of bits, timestamps over +-10^12 and the year boundaries 0/999/1000/9999/'
                '10000); per value three modes: render, parse back at the same type, compare values; compare layout shape with '
                'the model (comb layout per mode, timestamp int/string rule, domain types as bytes in optimized); distinct by '
                '(type, value, mode); non-trivial = composite type or out-of-range timestamp; plus the recorded arguments and storage parts of '
                'the mainnet corpus in the repository tests under their real annotated types' % ctx.pick(3, 4))
    for i in range(n):
        if i % 5 == 0:
            t = rng.choice([T.TIMESTAMP, T.option(T.TIMESTAMP), T.pair(T.TIMESTAMP, T.INT), T.list_(T.TIMESTAMP), T.map_(T.TIMESTAMP, T.NAT)])
        else:
            t = G.gen_type(rng, rng.randint(0, ctx.pick(3, 4)), 'packable')
        v = G.gen_value(rng, t)
        an = None
        if i % 3 == 1:
            import random
            from rv.checks.c04 import annotate, safe_annot
            an = safe_annot(random.Random(rng.getrandbits(32)))
            annotate(t, an)
        judge(ctx, t, v, an)
        ctx.remember(judge, ctx, t, v, an)
        if T.contains(t, 'address') and T.comparable(t):
            judge(ctx, t, v, an, spelled_default=True)
    # tickets: contents types that share their outermost constructor but differ below it, alternating within one process
    kt1 = P.address_from_str('KT1BEqzn5Wx8uJrZNvuS9DVHmLvG9td3fDLi')
    contents = [(T.NAT, [0, 7]), (T.STRING, ['', 'gold']), (T.pair(T.NAT, T.STRING), [(1, 'a')]), (T.pair(T.STRING, T.NAT), [('a', 1)]),
                (T.option(T.NAT), [None, ('Some', 3)]), (T.option(T.STRING), [('Some', 'x')]), (T.or_(T.NAT, T.STRING), [('L', 1), ('R', 's')]),
                (T.or_(T.STRING, T.NAT), [('L', 's'), ('R', 1)]), (T.pair(T.NAT, T.STRING, T.BYTES), [(1, ('a', b'\x00'))]),
                (T.pair(T.pair(T.NAT, T.NAT), T.STRING), [((1, 2), 'a')])]
    for rnd in range(2):
        for k, (ct, vals) in enumerate(contents):
            if ctx.mine(0):      # all in one process: the point is the order in which the types are met
                for c in vals:
                    for wrap in (lambda x: x, T.option, lambda x: T.pair(T.NAT, x)):
                        tt = wrap(T.ticket(ct))
                        tv = (kt1, c, 5 + rnd)
                        v = tv if tt[0] == 'ticket' else (('Some', tv) if tt[0] == 'option' else (9, tv))
                        ctx.count('ticket_values')
                        judge(ctx, tt, v)
    # big_map literals wherever a storage may hold them
    if ctx.mine(1):
        for kt, vt in ((T.NAT, T.STRING), (T.STRING, T.pair(T.NAT, T.TIMESTAMP)), (T.ADDRESS, T.NAT)):
            bm = T.big_map(kt, vt)
            for items in ([], [(G.gen_value(rng, kt, 1), G.gen_value(rng, vt, 1))]):
                for tt, vv in ((bm, items), (T.pair(bm, T.NAT), (items, 7)), (T.pair(T.NAT, bm), (7, items)), (T.option(bm), ('Some', items)), (T.option(bm), None),
                               (T.or_(bm, T.UNIT), ('L', items)), (T.or_(T.UNIT, bm), ('R', items)), (T.pair(T.option(bm), T.or_(T.NAT, bm)), (('Some', items), ('R', items))),
                               (T.option(T.pair(T.NAT, bm)), ('Some', (1, items)))):
                    judge_big_map(ctx, tt, vv)
    # collections of 9, 10, 11 ... hundreds of elements, wide combs, deep nestings, long strings
    for k, (label, t, v) in enumerate(G.large_values(rng, ctx.quick)):
        if ctx.mine(k):
            ctx.count('large_values')
            judge(ctx, t, v)
    # values with the shapes real contracts use: recorded arguments and storage parts of the mainnet corpus
    from rv.gen import corpus as C
    for k, (label, texpr, t, v, src) in enumerate(C.typed_values()):
        if ctx.mine(k) and T.packable(t):
            ctx.count('corpus_values')
            judge(ctx, t, v, C.annot_fn(texpr) if k % 2 == 0 else None)
    ctx.run_again()
    ctx.require('roundtrips', 300)
    ctx.require('layouts_compared' if not ctx.violations else 'roundtrips', 100)


def replay(ctx, case):
    if case.get('lazy_diff'):
        t = T.from_micheline(case['type_expr'])
        return judge_big_map(ctx, t, P.parse(case['value'], t))
    t = T.from_micheline(case['type_expr'])
    v = P.parse(case['value'], t)
    judge(ctx, t, v)
