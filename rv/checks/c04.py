"""C04 — PACK produces Tezos bytes and UNPACK inverts it (codec agreement monitor + structural mutants)."""
from rv.gen import micheline as GM
from rv.gen import typed as G
from rv.hooks import drive as D
from rv.hooks import extract as X
from rv.model import micheline_bin as MB
from rv.model import pack as P
from rv.model import types as T

LEVEL = 'exploration'
SHARDS = {'quick': 4, 'thorough': 16}


def feat(t, v):
    """Mechanism features of a case for signatures."""
    f = []
    if T.contains(t, 'key_hash') or T.contains(t, 'address'):
        f.append('keyhash/address')
    n = max([len(T.comb_types(x)) for x in subtypes(t) if x[0] == 'pair'] or [0])
    if n >= 4:
        f.append('comb>=4')
    elif n == 3:
        f.append('comb3')
    return '+'.join(f) or t[0]


def subtypes(t):
    yield t
    for a in t[1:]:
        yield from subtypes(a)


def rand_annot(rng, p=0.5):
    def f(path, t):
        if path and rng.random() < p and t[0] not in ():
            return [rng.choice(['%a', '%b', '%fld', ':ty', '%x1'])]
        return None
    return f


def no_field_annots_in_collections(t):
    return True


def judge(ctx, rng, t, v, annot_seed=None):
    import random
    case = {'type': T.show(t), 'type_expr': T.to_micheline(t), 'value': P.render(v, t, 'readable'), 'annot_seed': annot_seed}
    want = P.pack(v, t)
    ctx.case(want + T.show(t).encode(), nontrivial=T.depth(t) >= 2 or len(want) > 8)
    annot = None
    if annot_seed is not None:
        ar = random.Random(annot_seed)
        annot = safe_annot(ar)
    try:
        obj = D.mk_value(t, v, annot)
    except Exception as e:
        return ctx.violation('C04|cannot-build-value|%s' % type(e).__name__ + '|' + feat(t, v), repr(e)[:300], case)
    try:
        got = obj.pack()
    except Exception as e:
        return ctx.violation('C04|pack-raises|%s|%s' % (type(e).__name__, feat(t, v)), repr(e)[:300], case)
    ctx.count('pack_calls')
    if got != want:
        return ctx.violation('C04|pack-bytes-differ|%s%s' % (feat(t, v), '|annotated' if annot else ''),
                             'pytezos=%s model=%s' % (got.hex()[:160], want.hex()[:160]), case)
    # second call on the same object, and a call after the key-hash serialisation (pack(legacy=True)) of the same object
    try:
        again = obj.pack()
        obj.pack(legacy=True)
        after = obj.pack()
        fresh = D.mk_value(t, v, annot)
        fresh.pack(legacy=True)
        first_after_legacy = fresh.pack()
    except Exception as e:
        return ctx.violation('C04|repeated-pack-raises|%s|%s' % (type(e).__name__, feat(t, v)), repr(e)[:300], case)
    ctx.count('repeated_pack_calls')
    for name, b in (('second-call', again), ('after-legacy-pack-of-the-same-object', after), ('first-call-after-legacy-pack', first_after_legacy)):
        if b != want:
            return ctx.violation('C04|pack-bytes-differ|%s|%s' % (name, feat(t, v)), 'pytezos=%s model=%s' % (b.hex()[:160], want.hex()[:160]), case)
    cls = type(obj)
    try:
        back = cls.unpack(got)
        bv = X.value_of(back)
    except Exception as e:
        return ctx.violation('C04|unpack-raises|%s|%s' % (type(e).__name__, feat(t, v)), repr(e)[:300], case)
    ctx.count('unpack_calls')
    if bv != v:
        return ctx.violation('C04|unpack-differs|' + feat(t, v), 'got %r want %r' % (bv, v), case)
    errs = X.conformance_errors(back, t)
    if errs:
        return ctx.violation('C04|unpack-wrong-type|' + feat(t, v), repr(errs[:2]), case)
    return got


def safe_annot(ar):
    """Random field/type annotations, not on arguments of list/set/map/option/lambda (pytezos and Tezos forbid field
    annotations there) and never on the root."""
    def f(path, t):
        return None
    marks = {}

    def annot(path, t):
        if not path:
            return None
        return marks.get(path)
    # decided lazily by a walk, see annotate()
    annot.marks = marks
    annot.rng = ar
    return annot


def annotate(t, annot, path=(), parent=None):
    if path and parent in ('pair', 'or') and annot.rng.random() < 0.5:
        # some names spell what the Python-object layer generates for unnamed siblings (<prim>_<position>)
        annot.marks[path] = [annot.rng.choice(['%a', '%b', '%fld', '%x1', '%a', '%b', '%nat_0', '%nat_1', '%nat_2', '%string_1', '%int_1', '%bytes_2',
                                               '%' + t[0] + '_' + str(annot.rng.randrange(4)), '%' + 'n' * 32, '%' + 'm' * 31])]
    elif path and annot.rng.random() < 0.2:
        annot.marks[path] = [annot.rng.choice([':ty', ':t2'])]
    for i, a in enumerate(t[1:]):
        annotate(a, annot, path + (i,), t[0])


def instr_agreement(ctx, t, v, packed):
    """PACK / UNPACK instructions agree with the methods."""
    case = {'type': T.show(t), 'type_expr': T.to_micheline(t), 'value': P.render(v, t, 'readable'), 'via': 'instructions'}
    it = D.new_interpreter()
    code = [D.push(t, v), {'prim': 'PACK'}, {'prim': 'DUP'}, {'prim': 'UNPACK', 'args': [T.to_micheline(t)]}]
    res = it.execute(code)
    ctx.count('instr_runs')
    if res.error is not None:
        return ctx.violation('C04|PACK-UNPACK-instr-fails|' + feat(t, v), repr(res.error)[:300], case)
    try:
        top, nxt = X.value_of(it.stack.items[0]), X.value_of(it.stack.items[1])
    except Exception as e:
        return ctx.violation('C04|instr-extract|' + feat(t, v), repr(e)[:200], case)
    if nxt != packed:
        return ctx.violation('C04|PACK-instr-differs|' + feat(t, v), '%s vs %s' % (nxt.hex()[:120], packed.hex()[:120]), case)
    if top != ('Some', v):
        return ctx.violation('C04|UNPACK-instr-differs|' + feat(t, v), repr(top)[:300], case)


def judge_mutant(ctx, t, cls, data, klass, structural):
    ref = P.unpack(data, t)
    if ref[0] == 'some' and not structural and P.has_lambda_code(None, t) and klass != 'valid':
        ref = ('dontcare', 'mutated lambda code: well-typedness of the code is outside the model')
    ctx.count('mutants')
    ctx.count('mutant_' + klass)
    ctx.count('ref_' + ref[0])
    ctx.case(data + T.show(t).encode(), nontrivial=True)
    case = {'type': T.show(t), 'type_expr': T.to_micheline(t), 'bytes': data.hex(), 'class': klass}
    it = D.new_interpreter()
    code = [{'prim': 'PUSH', 'args': [{'prim': 'bytes'}, {'bytes': data.hex()}]}, {'prim': 'UNPACK', 'args': [T.to_micheline(t)]}]
    res = it.execute(code)
    if res.error is not None:
        if ref[0] == 'dontcare':
            return
        return ctx.violation('C04|UNPACK-crashes-instead-of-None|' + klass, 'err=%r ref=%r' % (res.error, ref[:2] if ref[0] != 'some' else 'some'), case)
    try:
        top = X.value_of(it.stack.items[0])
    except Exception as e:
        return ctx.violation('C04|mutant-extract', repr(e)[:200], case)
    if structural and ref[0] == 'some':
        return ctx.inconc('model accepts structural mutant %s %s' % (klass, data.hex()[:60]))
    if ref[0] == 'none':
        if top is not None:
            ctx.violation('C04|UNPACK-accepts-invalid|%s|%s' % (klass, ref[1].split(' (')[0][:40]), 'got %r; invalid because %s' % (top, ref[1]), case)
    elif ref[0] == 'some':
        if top is None:
            ctx.violation('C04|UNPACK-rejects-valid|' + klass, 'model value %r' % (ref[1],), case)
        elif top != ('Some', ref[1]):
            ctx.violation('C04|UNPACK-wrong-value|' + klass, 'got %r model %r' % (top, ref[1]), case)


SWAP = {'key_hash': 'address', 'address': 'key_hash', 'nat': 'int', 'int': 'nat', 'mutez': 'nat', 'string': 'bytes', 'bytes': 'string', 'timestamp': 'int',
        'key': 'bytes', 'signature': 'bytes', 'chain_id': 'bytes', 'bool': 'unit', 'unit': 'bool'}


def retype(rng, t, p=0.5):
    """A type of the same shape in which some leaves (and some list/set constructors) are exchanged for look-alikes: the bytes
    PACK made at `t` are then offered to UNPACK at the result."""
    if len(t) == 1:
        return (SWAP[t[0]],) if t[0] in SWAP and rng.random() < p else t
    if t[0] == 'lambda':
        return t
    args = tuple(retype(rng, a, p) for a in t[1:])
    prim = t[0]
    if prim in ('list', 'set') and rng.random() < 0.3:
        prim = 'set' if prim == 'list' else 'list'
    if prim in ('set', 'map') and not T.comparable(args[0]):
        prim = 'list' if prim == 'set' else prim
        if prim == 'map':
            return t
    return (prim,) + args


def run(ctx):
    rng = ctx.rng
    n = ctx.pick(2400, 160000) // ctx.nshards
    ctx.rule = ('packable types depth<=%d (all leaf types incl. key_hash/address with 00-04 / ..00 digests, combs of 2..6, '
                'sets/maps with composite keys, lambdas), boundary values; per value: pack bytes == 0x05||model encoding, '
                'unpack(pack(v)) == v, PACK/UNPACK instructions agree, re-annotated type gives the same bytes; mutants: every '
                'prefix, extensions, non-minimal ints, bad tags, byte flips (weak: only where the strict model decides); '
                'distinct by (type, bytes); non-trivial = composite type or >8 bytes' % ctx.pick(3, 4))
    D.patch_parser_passthrough()
    for i in range(n):
        t = G.gen_type(rng, rng.randint(0, ctx.pick(3, 4)), 'packable')
        v = G.gen_value(rng, t)
        packed = judge(ctx, rng, t, v)
        ctx.remember(judge, ctx, rng, t, v)
        if not isinstance(packed, bytes):
            continue
        if len(ctx.samples) < 3 and T.depth(t) >= 2:
            ctx.samples.append({'type': T.show(t), 'value': P.render(v, t, 'readable'), 'packed': packed.hex()})
        # annotated variant: same bytes, same value
        if i % 3 == 0:
            an = safe_annot(__import__('random').Random(rng.getrandbits(32)))
            annotate(t, an)
            if an.marks:
                case = {'type': T.show(t), 'type_expr': T.to_micheline(t, an), 'value': P.render(v, t, 'readable')}
                try:
                    got = D.mk_value(t, v, an).pack()
                    ctx.count('annotated_pack_calls')
                    if got != packed:
                        ctx.violation('C04|pack-bytes-differ|annotated|' + feat(t, v), 'annotated=%s plain=%s' % (got.hex()[:160], packed.hex()[:160]), case)
                except Exception as e:
                    ctx.violation('C04|annotated-pack-raises|%s|%s' % (type(e).__name__, feat(t, v)), repr(e)[:300], case)
        if i % 4 == 0:
            instr_agreement(ctx, t, v, packed)
        if i % 3 == 1:
            t2 = retype(rng, t)
            if t2 != t:
                ctx.count('cross_type_unpacks')
                judge_mutant(ctx, t2, None, packed, 'cross-type', False)
        if i % (2 if ctx.quick else 6) == 0:
            cls = None
            for klass, m in GM.structural_mutants(rng, packed, 6):
                if klass in ('truncate',) and len(m) == 0:
                    continue
                judge_mutant(ctx, t, cls, m, klass, klass in ('truncate', 'extend'))
            if packed[1:2] == b'\x00':
                for klass, m in GM.nonminimal_int_mutants(packed[1:]):
                    judge_mutant(ctx, t, cls, b'\x05' + m, klass, True)
            judge_mutant(ctx, t, cls, b'\x04' + packed[1:], 'wrong-leading-byte', True)
            judge_mutant(ctx, t, cls, packed[1:], 'missing-leading-byte', False)
    # collections of 9, 10, 11 ... hundreds of elements, wide combs, deep nestings, long strings
    for k, (label, t, v) in enumerate(G.large_values(rng, ctx.quick)):
        if ctx.mine(k):
            ctx.count('large_values')
            packed = judge(ctx, rng, t, v)
            if isinstance(packed, bytes) and len(packed) < 20000:
                instr_agreement(ctx, t, v, packed)
    from rv.gen import corpus as C
    for k, (label, texpr, t, v, src) in enumerate(C.typed_values()):
        if ctx.mine(k) and T.packable(t):
            ctx.count('corpus_values')
            packed = judge(ctx, rng, t, v)
            if isinstance(packed, bytes) and k % 3 == 0:
                instr_agreement(ctx, t, v, packed)
    # lambdas are packable whatever their argument and result types mention (operation, big_map, ticket, contract ...)
    odd = [T.list_(T.OPERATION), T.OPERATION, T.big_map(T.NAT, T.STRING), T.ticket(T.NAT), T.contract(T.UNIT), T.pair(T.NAT, T.OPERATION),
           T.option(T.ticket(T.STRING)), T.lambda_(T.UNIT, T.OPERATION)]
    j = 0
    for a in odd + [T.UNIT, T.NAT]:
        for r in odd + [T.UNIT]:
            for wrap in (lambda x: x, T.option, T.list_, lambda x: T.pair(T.NAT, x), lambda x: T.map_(T.STRING, x)):
                j += 1
                if not ctx.mine(j) or (a in (T.UNIT, T.NAT) and r == T.UNIT):
                    continue
                lt = T.lambda_(a, r)
                t = wrap(lt)
                code = rng.choice([[{'prim': 'FAILWITH'}], [{'prim': 'PUSH', 'args': [{'prim': 'string'}, {'string': 'no'}]}, {'prim': 'FAILWITH'}]])
                v = {'lambda': code, 'option': ('Some', code), 'list': [code, code], 'pair': (7, code), 'map': [('k', code)]}[t[0]]
                ctx.count('lambdas_over_unpackable_types')
                packed = judge(ctx, rng, t, v)
                if isinstance(packed, bytes) and j % 3 == 0:
                    instr_agreement(ctx, t, v, packed)
    ctx.run_again()
    ctx.require('lambdas_over_unpackable_types', 10)
    ctx.require('pack_calls', 100)
    ctx.require('unpack_calls', 50)
    ctx.require('cross_type_unpacks', 50)
    ctx.require('mutants', 100)
    ctx.require('instr_runs', 20)


def replay(ctx, case):
    t = T.from_micheline(case['type_expr'])
    D.patch_parser_passthrough()
    if 'bytes' in case:
        judge_mutant(ctx, t, None, bytes.fromhex(case['bytes']), case.get('class', 'replay'), False)
    else:
        v = P.parse(case['value'], t)
        packed = judge(ctx, ctx.rng, t, v)
        if isinstance(packed, bytes):
            instr_agreement(ctx, t, v, packed)
