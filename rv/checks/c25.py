"""C25 — injected operations carry the account's next counters.
Client call histories (build, fill / autofill one or more times, sign, inject, failed injection, block applied, foreign
pending operations) run against the simulated node; an offline checker over the node's injection log decides:
counters of every injected group == node_counter + pending_of_account + 1, +2, ..."""
import itertools

from rv.checks.c07 import gen_secret
from rv.hooks import node as ND
from rv.hooks import rpc as R

LEVEL = 'exploration'
SHARDS = {'quick': 4, 'thorough': 16}
PREPS = ['fill', 'autofill', 'fill,fill', 'fill,autofill', 'autofill,autofill', 'autofill,fill', 'bulk-of-filled', 'bulk-of-filled',
         'fill-extend-fill', 'contract-call-after-estimate', 'contract-call-after-estimate']
POLICIES = ['applied', 'unprocessed', 'unprocessed-pairs', 'alternate', 'unprocessed-nothing-applied']
INJECT = ['ok', 'fail-reinject', 'fail-redo', 'ok']
AFTER = ['none', 'bake', 'foreign', 'none']
_key = {}


def the_key(rng):
    from pytezos.crypto.key import Key
    if 'k' not in _key:
        _key['k'] = Key.from_secret_exponent(bytes(range(7, 39)), b'ed')
    return _key['k']


def tx(i):
    return {'kind': 'transaction', 'source': '', 'fee': '0', 'counter': '0', 'gas_limit': '0', 'storage_limit': '0', 'amount': str(1 + i),
            'destination': 'tz1VSUr8wwNhLAzempoch5d6hLRiTh8Cjcjb'}


def run_history(steps, start_counter, policy='applied'):
    """steps: list of (n_contents, prep, inject, after). Returns node log + annotations per injection."""
    from pytezos.context.impl import ExecutionContext
    from pytezos.operation.group import OperationGroup
    from pytezos.rpc import RpcError, RpcNode, ShellQuery
    key = the_key(None)
    node = ND.Node(key.public_key_hash(), counter=start_counter)
    node.mempool_policy = policy
    t = R.Transport(node.handler)
    notes = []          # per injection attempt: features of the calls that prepared it
    errors = []
    with R.installed(t):
        cx = ExecutionContext(key=key, shell=ShellQuery(RpcNode('http://node.test')))
        interfaces = {}
        cursor = None     # model of the counter cursor cached on the client context (KNOWN_FINDINGS: it is not re-read between preparations)
        for si, (n, prep, inj, after) in enumerate(steps):
            og = OperationGroup(context=cx)
            for i in range(n):
                og = og.operation(tx(i))

            def prepare():
                nonlocal cursor
                out = None
                info = {'preps': [], 'n': n}
                for p in prep.split(','):
                    info['preps'].append(p)
                    info['pending_at_last_prep'] = node.pending_of_account()
                    cursor_before = cursor
                    if cursor is None:
                        cursor = node.counter
                    info['cursor_ahead_of_node'] = cursor - node.counter
                    info['predicted_by_cursor'] = [cursor + i + 1 + node.pending_of_account() for i in range(n)]
                    cursor += n
                    if p == 'contract-call-after-estimate':
                        # calls made through one ContractInterface: an estimate that is thrown away, then the real call
                        # (every call is a transaction of its own, built on a context of its own)
                        from pytezos.client import PyTezosClient
                        ci = interfaces.setdefault('ci', PyTezosClient(context=cx).contract('KT1BEqzn5Wx8uJrZNvuS9DVHmLvG9td3fDLi'))
                        cursor = cursor_before          # the client context is not touched by contract calls
                        ci.default(1).as_transaction().autofill()
                        out = ci.default(2).as_transaction()
                        for i in range(1, n):
                            out = out.operation(tx(i))
                        out = out.autofill()
                        info['cursor_ahead_of_node'] = 0
                        info['predicted_by_cursor'] = [node.counter + i + 1 + node.pending_of_account() for i in range(n)]
                        info['via_bulk'] = True
                    elif p == 'fill-extend-fill':
                        # a group filled, extended with one more content, filled again: the new content continues the numbering
                        first = OperationGroup(context=cx)
                        for i in range(max(1, n - 1)):
                            first = first.operation(tx(i))
                        part = first.fill()
                        if n >= 2:
                            part = part.operation(tx(n - 1)).fill()
                        out = part
                    elif p == 'bulk-of-filled':
                        # a group that was already filled (it carries counters) is batched again: the batch gets fresh counters
                        from pytezos.client import PyTezosClient
                        pre = og.fill()
                        out = PyTezosClient(context=cx).bulk(pre).fill()
                        info['cursor_ahead_of_node'] = 0          # the batch lives on a context of its own
                        info['predicted_by_cursor'] = [node.counter + i + 1 + node.pending_of_account() for i in range(n)]
                        info['via_bulk'] = True
                    else:
                        out = og.fill() if p == 'fill' else og.autofill()
                return out, info
            try:
                filled, info = prepare()
                signed = filled.sign()
                if inj in ('fail-reinject', 'fail-redo'):
                    node.fail_next_injection = (500, [{'kind': 'permanent', 'id': 'node.prevalidation.oversized_operation'}])
                    try:
                        signed.inject(min_confirmations=0)
                        errors.append('failed injection did not raise')
                    except RpcError:
                        pass
                    notes.append(dict(info, failed=True))
                    if not info.get('via_bulk'):
                        cursor = None      # inject() drops the cached counter (of the context the group lives on) before posting
                    if inj == 'fail-redo':
                        filled, info = prepare()
                        signed = filled.sign()
                    else:
                        info = dict(info, reinjected_same_bytes=True)
                signed.inject(min_confirmations=0)
                notes.append(dict(info, failed=False))
                if not info.get('via_bulk'):
                    cursor = None
            except Exception as e:
                errors.append('%s: %r' % (type(e).__name__, e))
                break
            if after == 'bake':
                node.bake()
            elif after == 'foreign':
                node.foreign_pending.append({'hash': 'oo', 'branch': node.block_hash(), 'contents': [dict(tx(0), source='tz1burnburnburnburnburnburnburjAYjjX', counter='7')]})
    return node, notes, errors


def judge(ctx, steps, start_counter, policy='applied'):
    case = {'steps': [list(s) for s in steps], 'start_counter': start_counter, 'mempool_policy': policy}
    ctx.count('mempool_' + policy)
    ctx.case((tuple(steps), start_counter, policy), nontrivial=len(steps) > 1 or ',' in steps[0][1] or steps[0][2] != 'ok')
    ctx.count('histories')
    node, notes, errors = run_history(steps, start_counter, policy)
    if node.unknown:
        return ctx.inconc('simulated node lacks endpoint %r' % (node.unknown[:2],))
    if errors:
        return ctx.violation('C25|client-call-raises|' + errors[0].split(':')[0], errors[0][:300], case)
    if len(node.injected) != len(notes):
        return ctx.inconc('injection log and call notes out of step')
    for rec, info in zip(node.injected, notes):
        ctx.count('injections_checked')
        ctx.count('injections_' + ('rejected' if not rec['accepted'] else 'accepted'))
        if 'contents' not in rec and rec['accepted']:
            return ctx.violation('C25|injected-bytes-undecodable', rec.get('decode_error', '?'), case)
        if 'contents' not in rec:
            import rv.model.opbin as OB
            raw = bytes.fromhex(rec['raw'])
            try:
                rec['contents'] = OB.decode_group(raw[:-64])['contents']
            except Exception:
                continue
        got = [int(c['counter']) for c in rec['contents']]
        base = rec['node_counter'] + rec['pending_before']
        want = [base + i + 1 for i in range(len(got))]
        if got == want:
            ctx.count('counters_correct')
            continue
        if any(b != a + 1 for a, b in zip(got, got[1:])):
            return ctx.violation('C25|counters-not-consecutive', 'counters %r' % got, case)
        # attribute the offset to the known mechanism of the counter cursor (see KNOWN_FINDINGS.txt): the cursor cached on the
        # context was ahead of / behind the node when the group was prepared, and the injected counters are exactly what that
        # cursor predicts; anything else is unexplained
        if info.get('cursor_ahead_of_node') and got == info.get('predicted_by_cursor'):
            sig = 'C25|counter-offset|cursor-advanced-by-earlier-preparations'
        else:
            sig = 'C25|counter-offset|unexplained'
        return ctx.violation(sig, 'injected counters %r, node counter %d + %d pending -> expected %r (history %r)'
                             % (got, rec['node_counter'], rec['pending_before'], want, steps), case)
    if len(ctx.samples) < 3 and len(steps) > 1:
        ctx.samples.append({'steps': [list(s) for s in steps], 'injected_counters': [[int(c['counter']) for c in r.get('contents', [])] for r in node.injected]})
    ctx.count('histories_all_correct')


def run(ctx):
    rng = ctx.rng
    ctx.rule = ('histories of 1..%d operation groups of one account (1-3 contents each) on one client context: prepared by fill / '
                'autofill / two preparations of which the last is used, signed, injected (accepted, rejected then re-injected, rejected '
                'then prepared again), followed by nothing / the node applying a block / foreign pending operations; single-group '
                'histories exhaustive, longer ones exhaustive up to 2 groups (quick) and random beyond; the node\'s injection log is '
                'checked offline: counters == node counter + pending operations of the account + 1..n' % ctx.pick(3, 4))
    ctx.exhaustive = True
    steps1 = [(n, p, i, a) for n in (1, 2, 3) for p in PREPS for i in ('ok', 'fail-reinject', 'fail-redo') for a in ('none', 'bake', 'foreign')]
    k = 0
    for s in steps1:
        k += 1
        if ctx.mine(k):
            judge(ctx, [s], rng.choice([0, 41, 2 ** 31]), POLICIES[k % len(POLICIES)])
    simple = [(n, p, i, a) for n in (1, 2) for p in ('fill', 'autofill') for i in ('ok', 'fail-redo') for a in ('none', 'bake')]
    for s1, s2 in itertools.product(simple, repeat=2):
        k += 1
        if ctx.mine(k):
            judge(ctx, [s1, s2], 7, POLICIES[k % len(POLICIES)])
    for _ in range(ctx.pick(150, 6000) // ctx.nshards):
        steps = [(rng.choice([1, 1, 2, 3]), rng.choice(PREPS), rng.choice(INJECT), rng.choice(AFTER)) for _ in range(rng.randint(2, ctx.pick(3, 4)))]
        judge(ctx, steps, rng.choice([0, 5, 127, 2 ** 40]), rng.choice(POLICIES))
    ctx.require('histories', 50)
    ctx.require('injections_checked', 100)
    ctx.require('counters_correct', 20)


def replay(ctx, case):
    judge(ctx, [tuple(s) for s in case['steps']], case['start_counter'], case.get('mempool_policy', 'applied'))
