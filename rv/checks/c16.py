"""C16 — arithmetic and numeric conversions are exact.
Every operand type combination of every listed instruction over all pairs of a boundary pool, lock-step against the
reference interpreter (Python big-int formulas)."""
import itertools

from rv.core import lockstep as L
from rv.model import pack as P
from rv.model import types as T
from rv.selftest import calibrate

LEVEL = 'exploration'
SHARDS = {'quick': 4, 'thorough': 16}

INT_FULL = sorted(set([0, 1, -1, 2, -2, 3, 7, 8, -8, 63, 64, -64, 127, 128, -128, 129, -129, 255, 256, -256, 257, 32767, 32768, -32768, 65535,
                       65536, 2 ** 31 - 1, 2 ** 31, -2 ** 31, 2 ** 32, 2 ** 62, 2 ** 63 - 1, 2 ** 63, -2 ** 63, -2 ** 63 - 1, 2 ** 64 - 1, 2 ** 64,
                       -2 ** 64, 2 ** 127, 2 ** 128 - 1, 2 ** 255, 2 ** 256, -2 ** 256, 2 ** 4096 + 1, -(2 ** 4095)]))
INT_QUICK = [0, 1, -1, 2, -3, 127, 128, -128, 255, 256, -256, 2 ** 63 - 1, 2 ** 63, -2 ** 64]
MUTEZ_FULL = [0, 1, 2, 3, 1000000, 2 ** 31, 2 ** 32, 2 ** 62 - 1, 2 ** 62, 2 ** 62 + 1, 2 ** 63 - 2, 2 ** 63 - 1]
MUTEZ_QUICK = [0, 1, 2, 2 ** 32, 2 ** 62, 2 ** 63 - 1]
SHIFT_FULL = [0, 1, 7, 8, 9, 15, 16, 17, 23, 24, 25, 31, 32, 33, 40, 47, 48, 63, 64, 65, 72, 127, 128, 255, 256, 257, 272, 300, 520, 1000, 64000, 64001]
SHIFT_QUICK = [0, 1, 7, 8, 9, 16, 17, 24, 31, 32, 40, 47, 48, 255, 256, 257]
BYTES_FULL = [b'', b'\x00', b'\x01', b'\x7f', b'\x80', b'\xff', b'\x00\x00', b'\x00\x80', b'\x00\xff', b'\x01\x00', b'\x7f\xff', b'\x80\x00',
              b'\xff\x00', b'\xff\x7f', b'\xff\x80', b'\xff\xff', b'\x00\x00\x01', b'\xff\xff\xfe', b'\x0f' * 9, b'\xf0' * 33]
BYTES_QUICK = [b'', b'\x00', b'\x7f', b'\x80', b'\xff', b'\x00\x80', b'\xff\x7f', b'\xff\xff\xfe']

BINARY = {
    'ADD': [('nat', 'nat'), ('nat', 'int'), ('int', 'nat'), ('int', 'int'), ('timestamp', 'int'), ('int', 'timestamp'), ('mutez', 'mutez')],
    'SUB': [('nat', 'nat'), ('nat', 'int'), ('int', 'nat'), ('int', 'int'), ('timestamp', 'int'), ('timestamp', 'timestamp'), ('mutez', 'mutez')],
    'SUB_MUTEZ': [('mutez', 'mutez')],
    'MUL': [('nat', 'nat'), ('nat', 'int'), ('int', 'nat'), ('int', 'int'), ('mutez', 'nat'), ('nat', 'mutez')],
    'EDIV': [('nat', 'nat'), ('nat', 'int'), ('int', 'nat'), ('int', 'int'), ('mutez', 'nat'), ('mutez', 'mutez')],
    'LSL': [('nat', 'shift'), ('bytes', 'shift')],
    'LSR': [('nat', 'shift'), ('bytes', 'shift')],
    'AND': [('bool', 'bool'), ('nat', 'nat'), ('int', 'nat'), ('bytes', 'bytes')],
    'OR': [('bool', 'bool'), ('nat', 'nat'), ('bytes', 'bytes')],
    'XOR': [('bool', 'bool'), ('nat', 'nat'), ('bytes', 'bytes')],
}
UNARY = {
    'ABS': ['int'], 'NEG': ['nat', 'int'], 'ISNAT': ['int'], 'INT': ['nat', 'bytes'], 'NAT': ['bytes'], 'BYTES': ['nat', 'int'],
    'NOT': ['bool', 'nat', 'int', 'bytes'],
    'BYTES;INT': ['int'], 'BYTES;NAT': ['nat'],
}


def pool(kind, quick):
    ints = INT_QUICK if quick else INT_FULL
    if kind in ('int', 'timestamp'):
        return ints
    if kind == 'nat':
        return sorted(set(abs(x) for x in ints))
    if kind == 'mutez':
        return MUTEZ_QUICK if quick else MUTEZ_FULL
    if kind == 'shift':
        return SHIFT_QUICK if quick else SHIFT_FULL
    if kind == 'bytes':
        return BYTES_QUICK if quick else BYTES_FULL
    if kind == 'bool':
        return [False, True]
    raise KeyError(kind)


def mtype(kind):
    return (kind if kind != 'shift' else 'nat',)


def classify_pair(op, ta, a, tb, b):
    """Boundary class of the operands, for signatures."""
    f = []
    for t, v in ((ta, a), (tb, b)):
        if t in ('int', 'nat', 'timestamp', 'mutez', 'shift'):
            f.append('neg' if v < 0 else 'zero' if v == 0 else 'pos')
        elif t == 'bytes':
            f.append('empty' if not v else 'b')
        else:
            f.append(str(v))
    return '/'.join(f)


def _p(prim, *args):
    return {'prim': prim, 'args': list(args)} if args else {'prim': prim}


ARITH_POISON = [
    [_p('PUSH', {'prim': 'mutez'}, {'int': str(2 ** 63 - 1)}), _p('PUSH', {'prim': 'mutez'}, {'int': '1'}), _p('PUSH', {'prim': 'nat'}, {'int': '0'}), _p('DIP', [_p('ADD')])],
    [_p('PUSH', {'prim': 'nat'}, {'int': '1'}), _p('PUSH', {'prim': 'nat'}, {'int': '257'}), _p('PUSH', {'prim': 'nat'}, {'int': '0'}), _p('DIP', [_p('LSL')])],
    [_p('PUSH', {'prim': 'mutez'}, {'int': str(2 ** 62)}), _p('PUSH', {'prim': 'nat'}, {'int': '2'}), _p('PUSH', {'prim': 'nat'}, {'int': '0'}), _p('PUSH', {'prim': 'nat'}, {'int': '0'}),
     _p('DIP', {'int': '2'}, [_p('MUL')])],
]


def judge(ctx, op, ta, a, tb, b):
    code = []
    if tb is not None:
        code.append({'prim': 'PUSH', 'args': [{'prim': mtype(tb)[0]}, P.render(b, mtype(tb), 'readable')]})
    code.append({'prim': 'PUSH', 'args': [{'prim': mtype(ta)[0]}, P.render(a, mtype(ta), 'readable')]})
    for o in op.split(';'):
        code.append({'prim': o})
    label = '%s %s%s' % (op, ta, '/' + tb if tb else '')
    ctx.case((op, ta, repr(a), tb, repr(b)), nontrivial=True)
    ctx.count('op_' + op)
    it = None
    poison = None
    if ctx.evaluations % 7 == 3:
        # the same operation on an interpreter whose previous cell failed arithmetically inside a protected region
        from rv.hooks import drive as D_
        poison = ARITH_POISON[ctx.evaluations % len(ARITH_POISON)]
        it = D_.new_interpreter()
        if it.execute(poison).error is None:
            it, poison = None, None
        else:
            ctx.count('operations_run_after_a_failed_cell_on_the_same_interpreter')
    out = L.run_both(code, interp=it)
    case = {'code': code, 'poison': poison}
    if out.kind == 'agree':
        ctx.count('agree')
        if out.model.kind != 'ok':
            ctx.count('agreed_failures')
        elif out.model.stack and out.model.stack[0][1] is None:
            ctx.count('agreed_None_results')
        if len(ctx.samples) < 5 and tb and a not in (0, 1) and ctx.evaluations % 97 == 0:
            ctx.samples.append({'program': code, 'model_result': repr(out.model.stack)[:200] if out.model.kind == 'ok' else out.model.kind})
    elif out.kind == 'violation':
        cls = classify_pair(op, ta, a, tb, b) if tb else ('neg' if isinstance(a, int) and not isinstance(a, bool) and a < 0 else 'x')
        sig = 'C16|%s|%s' % (label, out.sig.split('|', 1)[1].rsplit('|', 1)[0] if '|' in out.sig else out.sig)
        # keep the mechanism narrow: which failure/None/value class, not the numbers
        ctx.violation(sig + '|' + result_class(out), '%s; operands %r %r; %s' % (label, a, b, out.detail), case)
    elif out.kind == 'unsupported':
        ctx.count('model_unsupported')
    else:
        ctx.inconc('%s: %s' % (label, out.detail))


def result_class(out):
    m = out.model
    if m.kind == 'runtime':
        return 'model-fails:' + (m.detail or '')
    if m.kind == 'ok' and m.stack:
        v = m.stack[0][1]
        if v is None:
            return 'model-None'
        if isinstance(v, tuple) and v and v[0] == 'Some':
            return 'model-Some'
    return 'model-value'


def run(ctx):
    ok, cal = calibrate.ensure()
    ctx.extra['calibration'] = {k: cal[k] for k in ('vectors', 'agree')} if cal else None
    if not ok:
        return ctx.inconc('reference interpreter failed its calibration against the Octez vectors')
    q = ctx.quick
    ctx.rule = ('every listed instruction x every operand type combination x ALL pairs of the boundary pool (ints: %d values, mutez '
                '%d, shifts %d, bytes %d); unary instructions and BYTES;INT / BYTES;NAT identities over the whole pool; lock-step '
                'against Python big-int reference formulas incl. failure (mutez overflow/underflow, shift>256) and None conditions; '
                'exhaustive over the pool' % (len(pool('int', q)), len(pool('mutez', q)), len(pool('shift', q)), len(pool('bytes', q))))
    ctx.exhaustive = True
    i = 0
    for op, combos in BINARY.items():
        for ta, tb in combos:
            for a, b in itertools.product(pool(ta, q), pool(tb, q)):
                i += 1
                if ctx.mine(i):
                    judge(ctx, op, ta, a, tb, b)
    for op, kinds in UNARY.items():
        for ta in kinds:
            for a in pool(ta, False):
                i += 1
                if ctx.mine(i):
                    judge(ctx, op, ta, a, None, None)
    ctx.require('operations_run_after_a_failed_cell_on_the_same_interpreter', 50)
    ctx.require('agree', 500)
    ctx.require('agreed_failures', 5)
    ctx.require('agreed_None_results', 5)


def replay(ctx, case):
    it = None
    if case.get('poison'):
        from rv.hooks import drive as D_
        it = D_.new_interpreter()
        it.execute(case['poison'])
    out = L.run_both(case['code'], interp=it)
    if out.kind == 'violation':
        ctx.violation('C16|replay|' + str(out.sig), out.detail, case)
