"""C24 — automatically chosen fees meet the node's default minimal fee.
Groups produced by fill() / autofill() against the simulated node are checked against
  fee * 1000 >= 100000 + 1000 * (forged bytes + signature bytes) + 100 * total gas limit      (nanotez, exact)."""
from rv.checks.c07 import CNAME, gen_secret
from rv.gen import operations as GO
from rv.hooks import node as ND
from rv.hooks import rpc as R
from rv.model import opbin as OB

LEVEL = 'exploration'
SHARDS = {'quick': 4, 'thorough': 16}
KINDS = ['reveal', 'transaction', 'origination', 'delegation', 'register_global_constant', 'transfer_ticket', 'smart_rollup_add_messages',
         'smart_rollup_execute_outbox_message']
_keys = {}


def key_for(rng, curve):
    from pytezos.crypto.key import Key
    if curve not in _keys:
        _keys[curve] = [Key.from_secret_exponent(gen_secret(rng, curve), curve) for _ in range(2 if curve != b'BL' else 1)]
    return rng.choice(_keys[curve])


def blank(c):
    c = dict(c)
    c.update(source='', fee='0', counter='0', gas_limit='0', storage_limit='0')
    if c['kind'] == 'reveal':
        c['public_key'] = ''
        c.pop('proof', None)
    return c


def batch_class(contents, curve):
    n = len(contents)
    return 'n=%s|%s' % ('1' if n == 1 else '2-5' if n <= 5 else '6+', CNAME[curve])


def judge(ctx, rng, curve, contents, how, sim_gas):
    from pytezos.context.impl import ExecutionContext
    from pytezos.operation.group import OperationGroup
    from pytezos.rpc import RpcNode, ShellQuery
    key = key_for(rng, curve)
    node = ND.Node(key.public_key_hash(), counter=rng.choice([0, 1, 127, 128, 16383, 2 ** 31, 2 ** 62]),
                   sim=lambda c: {'consumed_milligas': str(sim_gas(c) * 1000 + rng.choice([0, 1, 999])),
                                  'paid_storage_size_diff': str(rng.choice([0, 0, 67, 4000])),
                                  **({'allocated_destination_contract': True} if rng.random() < 0.2 else {})})
    case = {'curve': curve.decode(), 'contents': contents, 'how': how, 'node_counter': node.counter}
    kinds = '+'.join(sorted({c['kind'] for c in contents}))
    ctx.case((curve, how, repr(contents), node.counter), nontrivial=len(contents) > 1 or curve == b'BL')
    ctx.count('groups')
    ctx.count('how_' + how.split('>')[0].split('-')[0])
    ctx.count('how_' + how)
    ctx.count('curve_' + CNAME[curve])
    ctx.count('batch_%d' % min(len(contents), 10))
    t = R.Transport(node.handler)
    with R.installed(t):
        cx = ExecutionContext(key=key, shell=ShellQuery(RpcNode('http://node.test')))
        og = OperationGroup(context=cx, contents=[dict(c) for c in contents])
        try:
            if how.startswith('bulk-'):
                # a group that went through autofill / fill before is batched again with client.bulk and prepared anew
                from pytezos.client import PyTezosClient
                pre = og.autofill() if 'after-autofill' in how else og.fill()
                batch = PyTezosClient(context=cx).bulk(pre)
                filled = batch.fill() if how.endswith('>fill') else batch.autofill()
            else:
                filled = og.fill() if how == 'fill' else og.autofill()
            signed = filled.sign()
            payload = signed.binary_payload()
        except Exception as e:
            return ctx.violation('C24|%s-raises|%s|%s' % (how, type(e).__name__, batch_class(contents, curve)), repr(e)[:300], case)
    if node.unknown:
        return ctx.inconc('simulated node lacks endpoint %r' % (node.unknown[:2],))
    siglen = 96 if curve == b'BL' else 64
    forged = OB.encode_group({'branch': filled.branch, 'contents': filled.contents})
    if payload[:-siglen] != forged:
        return ctx.inconc('payload is not forged bytes + %d-byte signature' % siglen)
    fee = sum(int(c.get('fee', 0)) for c in filled.contents)
    gas = sum(int(c.get('gas_limit', 0)) for c in filled.contents)
    size = len(payload)
    need_nanotez = 100000 + 1000 * size + 100 * gas
    ctx.count('fee_inequalities_evaluated')
    if len(ctx.samples) < 4 and len(contents) in (1, 3):
        ctx.samples.append({'how': how, 'key': CNAME[curve], 'kinds': kinds, 'fee': fee, 'gas_limit_total': gas, 'signed_bytes': size,
                            'required_mutez': -(-need_nanotez // 1000)})
    if fee * 1000 < need_nanotez:
        return ctx.violation('C24|fee-below-minimum|%s|%s' % (how, batch_class(contents, curve)),
                             '%s: total fee %d mutez < required %d (100 + %d bytes + 0.1*%d gas), batch of %d [%s]'
                             % (how, fee, -(-need_nanotez // 1000), size, gas, len(contents), kinds), case)
    ctx.count('fee_sufficient')


def run(ctx):
    rng = ctx.rng
    n = ctx.pick(500, 30000) // ctx.nshards
    ctx.rule = ('batches of 1..20 manager operations of every kind (reveal, transaction to tz/KT, origination, delegation, '
                '(explicit delegate, none, or left empty for self registration), register_global_constant, transfer_ticket, smart rollup messages / outbox), all four source key kinds, node counters up '
                'to 2^62, simulated gas 0..1,040,000 and storage diffs; fill() and autofill() with default arguments; total fee vs the '
                'default mempool formula in nanotez over the real signed size; distinct by (key kind, method, contents); non-trivial '
                '= batch of >= 2 or BLS key')
    for i in range(n):
        curve = [b'ed', b'sp', b'p2', b'BL'][i % 4] if i % 8 < 7 else b'BL'
        k = rng.choice([1, 1, 1, 2, 2, 3, 5, 8, 13, 20])
        contents = [blank(GO.content(rng, rng.choice(KINDS))) for _ in range(k)]
        for c in contents:
            if c['kind'] == 'delegation' and rng.random() < 0.5:
                c['delegate'] = ''          # client.delegation() without an argument: self registration, filled in by the client
                ctx.count('self_registration_delegations')
        gas_pool = rng.choice([[0], [1, 100], [1000, 5000], [10000, 100000], [1040000 // max(k, 1)], [3, 1040000 // max(k, 1)]])
        how = rng.choice(['fill', 'autofill', 'fill', 'autofill', 'bulk-after-autofill>fill', 'bulk-after-autofill>autofill', 'bulk-after-fill>fill', 'bulk-after-fill>autofill'])
        judge(ctx, rng, curve, contents, how, lambda c: rng.choice(gas_pool))
    # large batches with gas consumptions that are not round numbers: per-content rounding losses add up with the batch size
    for j in range(ctx.pick(24, 400) // ctx.nshards + 1):
        curve = [b'ed', b'sp', b'p2', b'BL'][j % 4]
        k = rng.choice([10, 12, 16, 20, 25, 33, 40, 64, 97])
        kinds = rng.choice([['transaction'], ['transaction', 'delegation'], KINDS])
        contents = [blank(GO.content(rng, rng.choice(kinds))) for _ in range(k)]
        odd = [rng.choice([1, 3, 7, 9]) + 10 * rng.randrange(10, 2000) for _ in range(5)]
        ctx.count('large_batches')
        judge(ctx, rng, curve, contents, rng.choice(['autofill', 'autofill', 'fill']), lambda c: rng.choice(odd))
    ctx.require('large_batches', 5)
    ctx.require('groups', 100)
    ctx.require('fee_inequalities_evaluated', 100)
    ctx.require('how_fill', 20)
    ctx.require('how_autofill', 20)
    for c in CNAME.values():
        ctx.require('curve_' + c, 5)


def replay(ctx, case):
    judge(ctx, ctx.rng, case['curve'].encode(), case['contents'], case['how'], lambda c: 1000)
