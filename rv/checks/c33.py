"""C33 — registered global constants expand wherever they occur.
Substitution monitor on ExecutionContext.resolve_global_constants against an independent substitution + hash model."""
import copy
import hashlib

from rv.gen import micheline as G
from rv.model import base58 as B
from rv.model import micheline_bin as M

LEVEL = 'exploration'
SHARDS = {'quick': 2, 'thorough': 16}


def expr_hash(e):
    return B.encode(hashlib.blake2b(M.encode(e), digest_size=32).digest(), 'expr')


def const_ref(h, annots=None):
    e = {'prim': 'constant', 'args': [{'string': h}]}
    if annots:
        e['annots'] = annots
    return e


def model_resolve(e, table):
    if isinstance(e, list):
        return [model_resolve(x, table) for x in e]
    if isinstance(e, dict) and e.get('prim') == 'constant':
        h = e['args'][0]['string']
        if h not in table:
            raise KeyError(h)
        return model_resolve(table[h], table)
    if isinstance(e, dict) and 'args' in e:
        out = dict(e)
        out['args'] = [model_resolve(a, table) for a in e['args']]
        return out
    return e


PRIMS_NO_CONST = [p for p in M.GENERATED_PRIMS if p != 'constant']


def plant(rng, e, refs, p=0.25):
    """Replace random subtrees of e by constant references; returns new tree and count."""
    n = 0

    def go(x, depth):
        nonlocal n
        if refs and depth > 0 and rng.random() < p:
            n += 1
            return const_ref(rng.choice(refs))
        if isinstance(x, list):
            return [go(y, depth + 1) for y in x]
        if isinstance(x, dict) and x.get('args'):
            y = dict(x)
            y['args'] = [go(a, depth + 1) for a in x['args']]
            return y
        return x
    return go(e, 0), n


SCRIPT_SHAPES = ['tree', 'script', 'type', 'data']


def make_script(rng, refs):
    shape = rng.choice(SCRIPT_SHAPES)
    t = lambda b: G.tree(rng, b, PRIMS_NO_CONST, 256)
    if shape == 'script':
        e = [{'prim': 'parameter', 'args': [{'prim': 'or', 'args': [{'prim': 'nat', 'annots': ['%a']}, t(4)]}]},
             {'prim': 'storage', 'args': [{'prim': 'pair', 'args': [t(3), {'prim': 'big_map', 'args': [{'prim': 'nat'}, t(3)]}]}]},
             {'prim': 'code', 'args': [[{'prim': 'DUP'}, {'prim': 'PUSH', 'args': [t(3), t(5)]}, {'prim': 'DIP', 'args': [[t(6)]]},
                                        {'prim': 'LAMBDA', 'args': [t(2), t(2), [t(8)]]}]]}]
    elif shape == 'type':
        e = {'prim': 'pair', 'args': [{'prim': 'map', 'args': [{'prim': 'string'}, t(3)]}, {'prim': 'option', 'args': [t(4)]}, t(3)],
             'annots': ['%x']}
    elif shape == 'data':
        e = {'prim': 'Pair', 'args': [[{'prim': 'Elt', 'args': [{'string': 'k'}, t(4)]}], {'prim': 'Some', 'args': [t(5)]}, {'int': '7'}]}
    else:
        e = t(rng.choice([3, 10, 40, 60]))
    return shape, e


def judge(ctx, registered, script, unknown):
    """registered: list of expressions in registration order (may reference earlier ones by hash)."""
    from pytezos.context.impl import ExecutionContext
    case = {'registered': registered, 'script': script, 'expects_unknown': unknown}
    c = ExecutionContext()
    table = {}
    for r in registered:
        h = expr_hash(r)
        table[h] = r
        try:
            c.register_global_constant(copy.deepcopy(r))
        except Exception as e:
            return ctx.violation('C33|register-raises', repr(e), case)
    ctx.count('registered', len(registered))
    if set(c.global_constants) != set(table):
        return ctx.violation('C33|hash-differs', 'pytezos keys %r model %r' % (sorted(c.global_constants)[:3], sorted(table)[:3]), case)
    before = copy.deepcopy(script)
    try:
        want = ('ok', model_resolve(script, table))
    except KeyError as e:
        want = ('unknown', str(e))
    try:
        got = ('ok', c.resolve_global_constants(script))
    except Exception as e:
        got = ('raise', e)
    ctx.count('resolve_calls')
    if script != before:
        return ctx.violation('C33|input-mutated', 'the input expression was modified in place', case)
    if want[0] == 'unknown':
        ctx.count('unknown_hash_cases')
        if got[0] == 'ok':
            return ctx.violation('C33|unknown-hash-not-raised', 'returned %r' % (got[1],), case)
        return
    if got[0] != 'ok':
        return ctx.violation('C33|resolve-raises|' + type(got[1]).__name__, repr(got[1]), case)
    if got[1] != want[1]:
        gn, wn = M.nf(got[1]) if _nfable(got[1]) else None, M.nf(want[1])
        sig = 'C33|expansion-differs' if gn != wn else 'C33|expansion-differs-in-spelling'
        return ctx.violation(sig, 'got=%r want=%r' % (got[1], want[1]), case)
    ctx.count('expansions_equal')


def judge_sections(ctx, rng, registered, hashes):
    """The place where scripts meet the registry: an ExecutionContext built from a script hands out its sections
    (parameter, storage, code, every view) with the references expanded."""
    from pytezos.context.impl import ExecutionContext
    _shape, sections = None, None
    while _shape != 'script':
        _shape, sections = make_script(rng, hashes)
    t = lambda b: G.tree(rng, b, PRIMS_NO_CONST, 256)
    for name in ('v1', 'v2')[:rng.choice([1, 2])]:
        sections.append({'prim': 'view', 'args': [{'string': name}, t(2), t(3), [t(6), {'prim': 'DIP', 'args': [[t(4)]]}]]})
    nrefs = 0
    for sec in sections:
        for i in range(1 if sec['prim'] == 'view' else 0, len(sec['args'])):
            sec['args'][i], k = plant(rng, sec['args'][i], hashes, 0.4)
            nrefs += k
    ctx.case(('sections', tuple(hashes), M.encode(sections) if _nfable(sections) else repr(sections)), nontrivial=nrefs > 0)
    check_sections(ctx, registered, sections)


def check_sections(ctx, registered, sections):
    from pytezos.context.impl import ExecutionContext
    table = {expr_hash(r): r for r in registered}
    case = {'registered': registered, 'script': sections, 'via': 'ExecutionContext sections'}
    try:
        c = ExecutionContext(script={'code': copy.deepcopy(sections), 'storage': {'prim': 'Unit'}})
        for r in registered:
            c.register_global_constant(copy.deepcopy(r))
    except Exception as e:
        return ctx.violation('C33|context-from-script-raises', repr(e)[:300], case)
    for name, raw, getter in (('parameter', c.parameter_expr, c.get_parameter_expr), ('storage', c.storage_expr, c.get_storage_expr),
                              ('code', c.code_expr, c.get_code_expr), ('view', c.views_expr, c.get_views_expr)):
        ctx.count('section_getters_called')
        ctx.count('section_' + name)
        want = model_resolve(copy.deepcopy(raw), table)
        try:
            got = getter()
        except Exception as e:
            ctx.violation('C33|section-getter-raises|' + name, repr(e)[:300], case)
            continue
        if got != want:
            ctx.violation('C33|section-not-expanded|' + name, 'got=%r want=%r' % (got, want), case)
        else:
            ctx.count('sections_equal')


def _nfable(e):
    try:
        M.nf(e)
        return True
    except Exception:
        return False


def run(ctx):
    rng = ctx.rng
    ctx.rule = ('random scripts/types/data/trees (<=60 nodes) with constant references planted at random subtrees (type, code '
                'and data positions), registered constants forming acyclic reference DAGs of depth <=4 with shared '
                'sub-constants, annotated references, unknown hashes, malformed references; non-trivial = at least one '
                'reference resolved through at least one registered constant; distinct by (registered set, script)')
    N = ctx.pick(2500, 90000) // ctx.nshards
    for it in range(N):
        # layered DAG of constants
        layers = rng.randint(1, 4)
        regs, hashes = [], []
        for L in range(layers):
            for _ in range(rng.randint(1, 3)):
                e = G.tree(rng, rng.choice([1, 3, 8, 20]), PRIMS_NO_CONST, 256)
                if hashes and L > 0:
                    e, _n = plant(rng, e if isinstance(e, (list,)) or (isinstance(e, dict) and e.get('args')) else [e, e], hashes, 0.4)
                regs.append(e)
                hashes.append(expr_hash(e))
        shape, script = make_script(rng, hashes)
        script, nrefs = plant(rng, script, hashes, 0.3)
        r = rng.random()
        unknown = False
        if r < 0.12:
            bogus = B.encode(bytes(rng.getrandbits(8) for _ in range(32)), 'expr')
            script, k = plant(rng, script, [bogus], 0.5)
            if k == 0:
                script = [script, const_ref(bogus)]
            unknown = True
        elif r < 0.18 and regs:
            # reference to a constant that was *not* registered although it is referenced by a registered one
            inner = {'prim': 'Pair', 'args': [{'int': str(it)}, {'string': 'unregistered'}]}
            outer = [const_ref(expr_hash(inner))]
            regs.append(outer)
            script = [script, const_ref(expr_hash(outer))]
            unknown = True
        elif r < 0.24 and hashes:
            script = [script, const_ref(rng.choice(hashes), annots=['%ann'])]
            nrefs += 1
        ctx.case((tuple(hashes), M.encode(script) if _nfable(script) else repr(script)), nontrivial=nrefs > 0 or unknown,
                 sample={'shape': shape, 'registered': regs[:2], 'script': script} if it < 2 else None)
        ctx.count('shape_' + shape)
        judge(ctx, regs, script, unknown)
        if it % 5 == 0:
            judge_sections(ctx, rng, regs[:len(hashes)], hashes)
    # an empty registry must still reject unknown references; constants that are falsy as Python objects expand like any other
    bogus = B.encode(bytes(32), 'expr')
    for script in (const_ref(bogus), [{'prim': 'DROP'}, const_ref(bogus)], {'prim': 'pair', 'args': [{'prim': 'nat'}, const_ref(bogus)]}):
        ctx.case(('empty-registry', repr(script)), nontrivial=True)
        judge(ctx, [], script, True)
    for val in ([], {'int': '0'}, {'string': ''}, {'bytes': ''}, {'prim': 'Unit'}, [[]]):
        h = expr_hash(val)
        ctx.case(('falsy-constant', repr(val)), nontrivial=True)
        judge(ctx, [val], [{'prim': 'PUSH', 'args': [{'prim': 'unit'}, const_ref(h)]}, const_ref(h)], False)
        judge(ctx, [val, [const_ref(h), {'prim': 'DROP'}]], const_ref(expr_hash([const_ref(h), {'prim': 'DROP'}])), False)
    ctx.require('resolve_calls', 100)
    ctx.require('expansions_equal' if not ctx.violations else 'resolve_calls', 50)
    ctx.require('unknown_hash_cases', 10)
    ctx.require('section_getters_called', 40)


def replay(ctx, case):
    if case.get('via'):
        return check_sections(ctx, case['registered'], case['script'])
    judge(ctx, case['registered'], case['script'], case.get('expects_unknown'))
