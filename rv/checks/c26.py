"""C26 — retry exactly the transient node failures. Ordering checker over the request/sleep log of a
scripted transport; response sequences enumerated exhaustively (fault_enumeration)."""
import itertools

import requests

from rv.hooks import rpc as R

LEVEL = 'fault_enumeration'
SHARDS = {'quick': 1, 'thorough': 1}

# symbol -> (transient?, builder(k)) ; every response carries the unique marker k
TRANSIENT = ['T500', 'T503', 'V500', 'V502', 'VJ500']
TERMINAL = ['OK', 'P500', 'X500', 'XT500', 'TX500', 'XT2_500', 'N500', 'N502', 'E401', 'E404', 'E400', 'T400', 'BADJSON500', 'EMPTY500', 'NOERR500']
QUICK_TRANSIENT = ['T500', 'V500', 'VJ500']


def build(sym, k, url):
    mk = R.make_response
    if sym == 'OK':
        return mk(200, {'ok': k}, url=url)
    if sym in ('T500', 'T503'):
        return mk(int(sym[1:]), [{'kind': 'temporary', 'id': 'node.prevalidation.busy', 'msg': 'r%d' % k}], url=url)
    if sym in ('V500', 'V502'):
        return mk(int(sym[1:]), text='Assert_failure src/lib_shell/prevalidator.ml:1918:8 r%d' % k, ctype='text/plain', url=url)
    if sym == 'VJ500':     # the prevalidator failure text under a JSON content type (the body is not JSON)
        return mk(500, text='Assert_failure src/lib_shell/prevalidator.ml:1918:8 r%d' % k, ctype='application/json', url=url)
    if sym == 'NOERR500':  # a JSON error response whose error list is empty
        return mk(500, [], url=url)
    if sym == 'P500':
        return mk(500, [{'kind': 'permanent', 'id': 'node.state.block_not_found', 'msg': 'r%d' % k}], url=url)
    if sym == 'X500':
        return mk(500, [{'kind': 'permanent', 'id': 'proto.alpha.michelson_v1.script_rejected', 'msg': 'r%d' % k}], url=url)
    if sym == 'XT500':  # protocol error marked temporary: must NOT be retried
        return mk(500, [{'kind': 'temporary', 'id': 'proto.alpha.contract.counter_in_the_future', 'msg': 'r%d' % k}], url=url)
    if sym == 'TX500':    # a temporary node error followed by a protocol error: the response carries a protocol error
        return mk(500, [{'kind': 'temporary', 'id': 'node.prevalidation.busy', 'msg': 'q%d' % k},
                        {'kind': 'permanent', 'id': 'proto.alpha.michelson_v1.runtime_error', 'msg': 'r%d' % k}], url=url)
    if sym == 'XT2_500':
        return mk(500, [{'kind': 'temporary', 'id': 'proto.alpha.gas_exhausted.operation', 'msg': 'q%d' % k},
                        {'kind': 'temporary', 'id': 'node.prevalidation.busy', 'msg': 'r%d' % k}], url=url)
    if sym in ('N500', 'N502'):
        return mk(int(sym[1:]), text='<html>Bad gateway r%d</html>' % k, ctype='text/html', url=url)
    if sym == 'BADJSON500':
        return mk(500, text='{not json r%d' % k, url=url)
    if sym == 'EMPTY500':
        return mk(500, [{'kind': 'branch', 'id': 'node.z', 'msg': 'r%d' % k}], url=url)
    if sym == 'E401':
        return mk(401, text='unauthorized r%d' % k, ctype='text/plain', url=url)
    if sym == 'E404':
        return mk(404, text='not found r%d' % k, ctype='text/plain', url=url)
    if sym == 'E400':
        return mk(400, [{'kind': 'permanent', 'id': 'node.bad_request', 'msg': 'r%d' % k}], url=url)
    if sym == 'T400':  # temporary, but a client error: not a transient *server* error
        return mk(400, [{'kind': 'temporary', 'id': 'node.busy', 'msg': 'r%d' % k}], url=url)
    raise KeyError(sym)


def expected_requests(seq):
    n = 0
    for s in seq:
        n += 1
        if s not in TRANSIENT or n == 6:
            break
    return n


def judge(ctx, seq, via):
    from pytezos.rpc.node import RpcError, RpcNode
    sent = []

    def handler(method, url, kwargs):
        k = len(sent)
        sym = seq[k] if k < len(seq) else 'OK'
        sent.append(sym)
        return build(sym, k, url)

    t = R.Transport(handler)
    node = RpcNode('http://node.test')
    outcome = None
    with R.installed(t):
        try:
            if via == 'request':
                outcome = ('ret', node.request('GET', '/chains/main/blocks/head'))
            elif via == 'get':
                outcome = ('ret', node.get('/chains/main/blocks/head'))
            else:
                outcome = ('ret', node.post('/injection/operation', json='00'))
        except RpcError as e:
            outcome = ('rpcerror', e)
        except Exception as e:  # anything else is not "the error of the last response"
            outcome = ('other', e)
    case = {'responses': list(seq), 'via': via}
    nreq = len(t.requests)
    ctx.count('http_requests', nreq)
    ctx.count('sleeps', len(t.sleeps))
    exp = expected_requests(seq)
    nt = sum(1 for s in seq[:exp] if s in TRANSIENT)
    ctx.case((tuple(seq), via), nontrivial=nt > 0,
             sample={'case': case, 'requests': nreq, 'sleeps': t.sleeps, 'outcome': outcome[0]})
    if nreq > 6:
        return ctx.violation('C26|attempts>6', 'issued %d requests' % nreq, case)
    if nreq > exp:
        last = seq[nreq - 2] if nreq - 2 < len(seq) else '?'
        return ctx.violation('C26|resend-after-nontransient|' + last, 'requests=%d expected=%d' % (nreq, exp), case)
    if nreq < exp:
        return ctx.violation('C26|no-resend-after-transient|' + seq[nreq - 1],
                             'requests=%d expected=%d' % (nreq, exp), case)
    sl = t.sleeps
    if any(d < 0 or d > 2.0 for d in sl):
        return ctx.violation('C26|delay-out-of-range', 'sleeps=%r' % sl, case)
    if any(b < a for a, b in zip(sl, sl[1:])):
        return ctx.violation('C26|delay-decreasing', 'sleeps=%r' % sl, case)
    # sleeps must be interleaved between requests, never after the last request
    if t.log and t.log[-1][0] == 'sleep':
        return ctx.violation('C26|sleep-after-last-request', 'log tail is a sleep', case)
    last_sym, last_k = seq[exp - 1], exp - 1
    if last_sym == 'OK':
        if outcome[0] != 'ret':
            return ctx.violation('C26|success-not-returned', repr(outcome), case)
        val = outcome[1].json() if via == 'request' else outcome[1]
        if val != {'ok': last_k}:
            return ctx.violation('C26|wrong-success-returned', repr(val), case)
    else:
        if outcome[0] != 'rpcerror':
            return ctx.violation('C26|last-error-not-raised|' + last_sym, repr(outcome), case)
        if last_sym not in ('E401', 'E404', 'NOERR500'):
            if ('r%d' % last_k) not in repr(outcome[1].args):
                return ctx.violation('C26|raised-error-not-from-last-response|' + last_sym,
                                     'args=%r last=r%d' % (outcome[1].args, last_k), case)
    ctx.count('histories_checked')


def sequences(ctx):
    trans = QUICK_TRANSIENT if ctx.quick else TRANSIENT
    maxfull = 3 if ctx.quick else 4  # full alphabet up to this prefix length; beyond it two transient kinds
    for k in range(0, 7):
        alpha = trans if k <= maxfull else QUICK_TRANSIENT
        for pre in itertools.product(alpha, repeat=k):
            if k == 6:
                for term in (['OK', 'P500', 'T500'] if ctx.quick else ['OK', 'P500', 'T500', 'V500', 'E404']):
                    yield list(pre) + [term]  # the 7th must never be requested
                continue
            for term in TERMINAL:
                yield list(pre) + [term]


def run(ctx):
    ctx.rule = ('exhaustive: k<=6 transient responses (kinds %s) followed by each terminal kind %s, through '
                'RpcNode.request/get/post; non-trivial = at least one transient response before the deciding one; '
                'ambiguous responses (proto.* error whose text also carries the prevalidator marker) are not in the '
                'alphabet and not decided' % (TRANSIENT, TERMINAL))
    ctx.exhaustive = True
    if not R.hooks_reached():
        return ctx.inconc('pytezos.rpc.node no longer exposes requests/sleep')
    for i, seq in enumerate(sequences(ctx)):
        for via in ('request', 'get', 'post'):
            judge(ctx, seq, via)
    ctx.require('histories_checked' if not ctx.violations else 'http_requests', 1)
    ctx.require('sleeps', 1)


def replay(ctx, case):
    judge(ctx, case['responses'], case['via'])
