"""C27 — node errors map to the most specific registered error class (function-level postcondition monitor
over the live handler registry; the constructed id family is enumerated exhaustively)."""
import itertools

LEVEL = 'exploration'
SHARDS = {'quick': 1, 'thorough': 1}


def model_choice(handlers, error_id, generic):
    """Order stated by the property: full id, id without `proto.<protocol>.`, final component, category."""
    chunks = error_id.split('.')
    cands = [error_id]
    rest = chunks
    if chunks[0] == 'proto' and len(chunks) > 2:
        rest = chunks[2:]
        cands.append('.'.join(rest))
    cands.append(chunks[-1])
    if len(rest) >= 2:
        cands.append(rest[0])  # category
    for c in cands:
        if c in handlers:
            return handlers[c]
    return generic


def run(ctx):
    import pytezos.rpc.errors  # noqa: registers the handlers
    from pytezos.rpc.node import RpcError
    if 'rvtest.manager.unregistered_delegate' not in RpcError.__handlers__:
        class _ThreeComponents(RpcError, error_id='rvtest.manager.unregistered_delegate'):
            """harness-registered handler with a three-component name"""
        class _FiveComponents(RpcError, error_id='proto.alpha.rvtest.deep.name'):
            """harness-registered handler under a full identifier"""
    handlers = dict(RpcError.__handlers__)
    if not handlers:
        return ctx.inconc('no registered handlers')
    keys = sorted(handlers)
    ctx.extra['registered_keys'] = keys
    # atoms: every registered key, every dotted component of one, and unregistered names
    atoms = set(keys)
    for k in keys:
        atoms.update(k.split('.'))
    atoms.update(['unregistered_a', 'zz_b', 'contract', 'balance_too_low'])
    atoms = sorted(atoms)
    protos = ['alpha', '018-Proxford', 'PsParisCZo7KAh1Z1smVd9ZMZ1HHn5gkzbM94V3PLCpknFWhUAi']
    ids = set()
    for a in atoms:
        ids.add(a)                                   # <name> / registered dotted key as full id
        for p in protos:
            ids.add('proto.%s.%s' % (p, a))          # proto.<p>.<name>  (also proto.<p>.<cat>.<name> for dotted atoms)
    single = [a for a in atoms if '.' not in a]
    for c, n in itertools.product(single, repeat=2):
        ids.add('%s.%s' % (c, n))                    # <category>.<name>
        for p in protos:
            ids.add('proto.%s.%s.%s' % (p, c, n))    # proto.<p>.<category>.<name>
    # five components: decided only where rule 1 (full id) or rule 2 (id without `proto.<p>.`) already selects a class
    extra = ['rvtest.manager.unregistered_delegate', 'proto.alpha.rvtest.deep.name']
    for p_ in protos:
        extra.append('proto.%s.rvtest.manager.unregistered_delegate' % p_)
    ids = sorted(ids)
    ctx.rule = ('every id of the forms <name>, <category>.<name>, proto.<p>.<name>, proto.<p>.<category>.<name> with '
                'components drawn from all registered keys, their dotted components and unregistered names; error '
                'lists of length 1..3 (last decides); non-trivial = at least two different lookup forms of the id are '
                'registered with different classes, or nothing matches; ids with more components (category ambiguous) '
                'are not generated')
    ctx.exhaustive = True
    filler = [{'id': 'proto.alpha.michelson_v1.bad_return', 'kind': 'permanent'}, {'id': 'unregistered_a', 'kind': 'x'}]

    subclasses = sorted(set(handlers.values()), key=lambda c: c.__name__)

    def judge(eid, prefix):
        errs = list(prefix) + [{'id': eid, 'kind': 'temporary', 'msg': 'm'}]
        exp = model_choice(handlers, eid, RpcError)
        try:
            got = type(RpcError.from_errors(errs))
        except Exception as e:
            got = e
        chunks = eid.split('.')
        forms = {eid, chunks[-1], '.'.join(chunks[2:]) if chunks[0] == 'proto' and len(chunks) > 2 else eid}
        classes = {handlers[f] for f in forms if f in handlers}
        cat = (chunks[2:] if chunks[0] == 'proto' and len(chunks) > 2 else chunks)
        if len(cat) >= 2 and cat[0] in handlers:
            classes.add(handlers[cat[0]])
        ctx.case((eid, len(prefix)), nontrivial=len(classes) != 1,
                 sample={'errors': errs, 'expected': exp.__name__, 'got': getattr(got, '__name__', repr(got))})
        ctx.count('from_errors_calls')
        if got is exp and len(eid) % 3 == 0:
            # the same list through the classmethod as inherited by the registered subclasses: the verdict is about the list
            for sub in subclasses:
                try:
                    gs = type(sub.from_errors(errs))
                except Exception as e:
                    gs = e
                ctx.count('from_errors_calls_through_a_subclass')
                if gs is not exp:
                    ctx.violation('C27|wrong-class|called-through-a-subclass', 'id=%s through %s: expected=%s got=%s' % (eid, sub.__name__, exp.__name__, getattr(gs, '__name__', repr(gs))),
                                  {'id': eid, 'prefix': prefix})
                    break
        if got is not exp:
            which = 'final-vs-category' if (chunks[-1] in handlers and exp is handlers[chunks[-1]]) else \
                    'noprefix' if ('.'.join(chunks[2:]) in handlers) else 'other'
            ctx.violation('C27|wrong-class|' + which,
                          'id=%s expected=%s got=%s' % (eid, exp.__name__, getattr(got, '__name__', repr(got))),
                          {'id': eid, 'prefix': prefix})

    for eid in ids:
        judge(eid, [])
    for eid in extra:
        want = handlers.get(eid) or handlers.get('.'.join(eid.split('.')[2:]))
        try:
            got = type(RpcError.from_errors([{'id': eid, 'kind': 'permanent'}]))
        except Exception as e:
            got = e
        ctx.case((eid, 'five'), nontrivial=True)
        ctx.count('from_errors_calls')
        if got is not want:
            ctx.violation('C27|wrong-class|noprefix-multi-component', 'id=%s expected=%s got=%r' % (eid, want.__name__, got), {'id': eid, 'prefix': []})
    for eid in ids[:: (7 if ctx.quick else 1)]:
        judge(eid, filler[:1])
        judge(eid, filler)
    # empty list: generic error
    try:
        got = type(RpcError.from_errors([]))
    except Exception as e:
        got = e
    if got is not RpcError:
        ctx.violation('C27|empty-list', 'got %r' % (got,), {'id': None, 'prefix': []})
    ctx.require('from_errors_calls', 100)


def replay(ctx, case):
    import pytezos.rpc.errors  # noqa
    from pytezos.rpc.node import RpcError
    handlers = dict(RpcError.__handlers__)
    if case['id'] is None:
        return
    exp = model_choice(handlers, case['id'], RpcError)
    got = type(RpcError.from_errors(list(case['prefix']) + [{'id': case['id']}]))
    if got is not exp:
        ctx.violation('C27|wrong-class', 'id=%s expected=%s got=%s' % (case['id'], exp.__name__, got.__name__), case)
