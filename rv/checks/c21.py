"""C21 — BLS12-381 operations respect group and field laws.
ADD / NEG / MUL / PAIRING_CHECK through the real interpreter vs py_ecc's raw group operations with an own codec of the
Tezos point formats (incl. the point at infinity); group laws evaluated on the observed results."""
from rv.gen.programs import I, N, PUSH, TY
from rv.hooks import drive as D
from rv.hooks import extract as X
from rv.model import bls as B
from rv.model import types as T
from rv.model.order import BLS_R

LEVEL = 'exploration'
SHARDS = {'quick': 8, 'thorough': 16}
TIMEOUT = {'quick': 900, 'thorough': 7200}
GT = {'g1': T.G1, 'g2': T.G2}
_cache = {}


def pt(g, k):
    key = (g, k % BLS_R)
    if key not in _cache:
        _cache[key] = B.g1(k) if g == 'g1' else B.g2(k)
    return _cache[key]


def run_prog(code):
    it = D.new_interpreter()
    res = it.execute(code)
    if res.error is not None:
        return 'error', res.error
    try:
        return 'ok', [(X.type_of_class(type(o)), X.value_of(o)) for o in it.stack.items]
    except Exception as e:
        return 'extract-error', e


def kclass(k):
    k %= BLS_R
    return 'inf' if k == 0 else 'gen' if k == 1 else 'r-1' if k == BLS_R - 1 else 'k'


def check(ctx, label, sigtail, code, want_t, want_v, case):
    st, got = run_prog(code)
    ctx.count('instruction_runs')
    ctx.count('op_' + label)
    ctx.case(repr(case), nontrivial=True)
    c = dict(case, code=code)
    if st != 'ok':
        ctx.violation('C21|%s|fails|%s' % (label, sigtail), repr(got)[:300], c)
        return None
    t, v = got[0]
    if t != want_t:
        ctx.violation('C21|%s|type|%s' % (label, sigtail), 'type %r' % (t,), c)
        return None
    if v != want_v:
        ctx.violation('C21|%s|value|%s' % (label, sigtail), 'got %s expected %s' % (v.hex()[:64] if isinstance(v, bytes) else v, want_v.hex()[:64] if isinstance(want_v, bytes) else want_v), c)
        return None
    ctx.count('agree')
    return v


def run(ctx):
    rng = ctx.rng
    ks = [0, 1, 2, BLS_R - 1] + [rng.randrange(2, BLS_R) for _ in range(ctx.pick(2, 6))]
    scalars = [0, 1, 2, BLS_R - 1, BLS_R, BLS_R + 1, -1, -5, 2 ** 255] + [rng.randrange(BLS_R) for _ in range(ctx.pick(1, 4))]
    ctx.rule = ('points k*G for k in {0 (infinity), 1, 2, r-1, random} in G1 and G2, scalars {0,1,2,r-1,r,r+1,negative ints,2^255,random} '
                'as bls12_381_fr / int / nat: ADD, NEG, MUL vs raw curve arithmetic with an own decoder of the Tezos encodings; group '
                'laws (identity, inverse, commutativity, associativity, distributivity) on the observed results; Fr arithmetic; '
                'PAIRING_CHECK on lists of length 0-3 built to be true and false; distinct by operands')
    ctx.assumptions.append('py_ecc low-level curve arithmetic is trusted (pytezos uses the same library)')
    i = 0
    for g in ('g1', 'g2'):
        gt = GT[g]
        prim = gt[0]
        for a in ks:
            i += 1
            if ctx.mine(i):
                check(ctx, 'NEG', '%s|%s' % (g, kclass(a)), [PUSH(gt, pt(g, a)), I('NEG')], gt, B.neg(prim, pt(g, a)), {'op': 'NEG', 'g': g, 'a': a})
                # encoding round trip through PACK/UNPACK
                check(ctx, 'PACK;UNPACK', '%s|%s' % (g, kclass(a)), [PUSH(gt, pt(g, a)), I('PACK'), I('UNPACK', TY(gt)), I('IF_NONE', [PUSH(T.STRING, 'none'), I('FAILWITH')], [])],
                      gt, pt(g, a), {'op': 'roundtrip', 'g': g, 'a': a})
            for b in ks:
                i += 1
                if not ctx.mine(i):
                    continue
                want = B.add(prim, pt(g, a), pt(g, b))
                got = check(ctx, 'ADD', '%s|%s+%s' % (g, kclass(a), kclass(b)), [PUSH(gt, pt(g, b)), PUSH(gt, pt(g, a)), I('ADD')], gt, want, {'op': 'ADD', 'g': g, 'a': a, 'b': b})
                if got is not None:
                    # laws on observed results: a+b == (a+b)G, commutativity via the symmetric case, inverse
                    if got != pt(g, a + b):
                        ctx.violation('C21|law|ADD-is-not-scalar-addition|' + g, '%d+%d' % (a, b), {'op': 'ADD', 'g': g, 'a': a, 'b': b})
                    ctx.count('laws_checked')
            for s in scalars:
                i += 1
                if not ctx.mine(i):
                    continue
                sv = s % BLS_R
                want = B.mul(prim, pt(g, a), sv)
                got = check(ctx, 'MUL', '%s|%s*%s' % (g, kclass(a), kclass(sv)), [PUSH(T.FR, sv), PUSH(gt, pt(g, a)), I('MUL')], gt, want, {'op': 'MUL', 'g': g, 'a': a, 's': sv})
                if got is not None and got != pt(g, a * sv):
                    ctx.violation('C21|law|MUL-is-not-scalar-multiplication|' + g, '%d*%d' % (a, sv), {'op': 'MUL', 'g': g, 'a': a, 's': sv})
                ctx.count('laws_checked')
        # associativity / distributivity on a few triples, computed by the real interpreter in one program
        for _ in range(ctx.pick(3, 20)):
            i += 1
            if not ctx.mine(i):
                continue
            a, b, c = (rng.choice(ks) for _ in range(3))
            s = rng.choice(scalars) % BLS_R
            code = [PUSH(gt, pt(g, c)), PUSH(gt, pt(g, b)), I('ADD'), PUSH(gt, pt(g, a)), I('ADD'),        # a+(b+c)
                    PUSH(gt, pt(g, c)), PUSH(gt, pt(g, b)), PUSH(gt, pt(g, a)), I('ADD'), I('ADD'),          # (a+b)+c
                    PUSH(T.FR, s), PUSH(gt, pt(g, b)), PUSH(gt, pt(g, a)), I('ADD'), I('MUL'),                # s(a+b)
                    PUSH(T.FR, s), PUSH(gt, pt(g, b)), I('MUL'), PUSH(T.FR, s), PUSH(gt, pt(g, a)), I('MUL'), I('ADD'),  # sa+sb
                    PUSH(gt, pt(g, a)), I('NEG'), PUSH(gt, pt(g, a)), I('ADD')]                                 # a + (-a)
            st, got = run_prog(code)
            ctx.count('instruction_runs')
            ctx.case(('laws', g, a, b, c, s), nontrivial=True)
            case = {'op': 'laws', 'g': g, 'a': a, 'b': b, 'c': c, 's': s, 'code': code}
            if st != 'ok':
                ctx.violation('C21|laws|fails|' + g, repr(got)[:300], case)
                continue
            inv, sasb, sab, l2, l1 = [v for _, v in got[:5]]
            ctx.count('laws_checked', 4)
            if l1 != l2:
                ctx.violation('C21|law|associativity|' + g, '', case)
            if sab != sasb:
                ctx.violation('C21|law|distributivity|' + g, '', case)
            if inv != pt(g, 0):
                ctx.violation('C21|law|inverse|' + g, 'a + (-a) = %s' % inv.hex()[:40], case)
    # Fr field
    for a in scalars:
        for b in scalars[:6]:
            i += 1
            if not ctx.mine(i):
                continue
            x, y = a % BLS_R, b % BLS_R
            check(ctx, 'ADD', 'fr', [PUSH(T.FR, y), PUSH(T.FR, x), I('ADD')], T.FR, (x + y) % BLS_R, {'op': 'ADD', 'g': 'fr', 'a': x, 'b': y})
            check(ctx, 'MUL', 'fr', [PUSH(T.FR, y), PUSH(T.FR, x), I('MUL')], T.FR, (x * y) % BLS_R, {'op': 'MUL', 'g': 'fr', 'a': x, 'b': y})
        if ctx.mine(a):
            x = a % BLS_R
            check(ctx, 'NEG', 'fr', [PUSH(T.FR, x), I('NEG')], T.FR, (-x) % BLS_R, {'op': 'NEG', 'g': 'fr', 'a': x})
            check(ctx, 'INT', 'fr', [PUSH(T.FR, x), I('INT')], T.INT, x, {'op': 'INT', 'g': 'fr', 'a': x})
            check(ctx, 'MUL', 'int*fr', [PUSH(T.FR, 3), PUSH(T.INT, a), I('MUL')], T.FR, (a * 3) % BLS_R, {'op': 'MUL', 'g': 'int*fr', 'a': a})
            check(ctx, 'MUL', 'fr*nat', [PUSH(T.NAT, abs(a)), PUSH(T.FR, 3), I('MUL')], T.FR, (abs(a) * 3) % BLS_R, {'op': 'MUL', 'g': 'fr*nat', 'a': a})
    # pairing checks
    LT_ = T.list_(T.pair(T.G1, T.G2))
    cases = [('empty', [], True)]
    a, b = rng.randrange(2, 1000), rng.randrange(2, 1000)
    cases += [('e(aG,bH)e(-abG,H)', [(pt('g1', a), pt('g2', b)), (pt('g1', -a * b), pt('g2', 1))], True),
              ('e(aG,bH)e(abG,H)', [(pt('g1', a), pt('g2', b)), (pt('g1', a * b), pt('g2', 1))], False),
              ('e(G,H)', [(pt('g1', 1), pt('g2', 1))], False),
              ('e(0,H)', [(pt('g1', 0), pt('g2', 1))], True),
              ('e(G,0)', [(pt('g1', 1), pt('g2', 0))], True),
              ('e(aG,H)e(G,-aH)', [(pt('g1', a), pt('g2', 1)), (pt('g1', 1), pt('g2', -a))], True),
              ('three', [(pt('g1', a), pt('g2', 1)), (pt('g1', b), pt('g2', 1)), (pt('g1', -(a + b)), pt('g2', 1))], True),
              ('infinity-first-then-false', [(pt('g1', 0), pt('g2', 7)), (pt('g1', 2), pt('g2', 3))], False),
              ('infinity-first-then-true', [(pt('g1', 1), pt('g2', 0)), (pt('g1', a), pt('g2', b)), (pt('g1', -a * b), pt('g2', 1))], True),
              ('infinity-middle', [(pt('g1', a), pt('g2', b)), (pt('g1', 0), pt('g2', 0)), (pt('g1', a * b), pt('g2', 1))], False)]
    if not ctx.quick:
        for _ in range(12):
            x, y, z = rng.randrange(2, 10 ** 6), rng.randrange(2, 10 ** 6), rng.randrange(2, 10 ** 6)
            ok = rng.random() < 0.5
            cases.append(('random-%s' % ok, [(pt('g1', x), pt('g2', y)), (pt('g1', z), pt('g2', 1)), (pt('g1', -(x * y + z) + (0 if ok else 1)), pt('g2', 1))], ok))
    for j, (name, lst, truth) in enumerate(cases):
        if not ctx.mine(j):
            continue
        if B.pairing_check(lst) != truth:
            ctx.inconc('pairing model disagrees with construction for %s' % name)
            continue
        check(ctx, 'PAIRING_CHECK', name.split('-')[0], [PUSH(LT_, lst), I('PAIRING_CHECK')], T.BOOL, truth, {'op': 'PAIRING_CHECK', 'name': name, 'n': len(lst)})
    ctx.require('instruction_runs', 20 if ctx.nshards > 1 else 100)
    ctx.require('agree', 10)


def replay(ctx, case):
    if 'code' in case:
        st, got = run_prog(case['code'])
        if st != 'ok':
            ctx.violation('C21|replay|fails', repr(got)[:200], case)
