"""C02 — values produced by execution always have the statically expected type.
The instruction hook records the declared class type of every stack slot after every instruction; the final stack is also
walked deeply (class prim/args at every nested component) against the static types tracked by the reference interpreter."""
from rv.checks import _lock as K
from rv.checks import c01
from rv.gen import programs as GP
from rv.gen.programs import I, N, PUSH, TY
from rv.model import order as O
from rv.model import types as T

LEVEL = 'exploration'
SHARDS = {'quick': 4, 'thorough': 16}
PID = 'C02'


def transformer_programs(rng, n):
    """Collection transformers over every key/element shape (composite keys first)."""
    comp = GP.Compiler(rng, max_depth=1)
    out = []
    for _ in range(n):
        kt = comp.ctype(2)
        vt = comp.rtype(1)
        if T.contains(vt, 'lambda'):
            vt = T.STRING
        rt = comp.rtype(1)
        if T.contains(rt, 'lambda'):
            rt = T.NAT
        from rv.gen import typed as G
        keys = O.sort_unique(kt, [G.gen_value(rng, kt, 1) for _ in range(rng.choice([0, 1, 2, 3]))])
        if any(O.weak(kt, a, b) for a in keys for b in keys):
            continue
        mv = [(k, G.gen_value(rng, vt, 1)) for k in keys]
        lv = [G.gen_value(rng, vt, 1) for _ in range(rng.choice([0, 1, 3]))]
        new = G.gen_value(rng, rt, 1)
        body = [I('DROP'), PUSH(rt, new)]
        k = rng.choice(['MAP map', 'MAP list', 'ITER map', 'ITER set', 'UPDATE map', 'GET_AND_UPDATE', 'UPDATE set', 'EDIV', 'UNPACK', 'LEFT', 'NONE',
                        'MAP map keep key', 'GET map', 'IF_CONS', 'LOOP_LEFT', 'CONS', 'PAIR n', 'UPDATE n'])
        mt, st, lt = T.map_(kt, vt), T.set_(kt), T.list_(vt)
        key = G.gen_value(rng, kt, 1) if not keys or rng.random() < 0.5 else rng.choice(keys)
        if any(O.weak(kt, key, b) for b in keys):
            continue
        if k == 'MAP map':
            code = [PUSH(mt, mv), I('MAP', body)]
        elif k == 'MAP map keep key':
            code = [PUSH(mt, mv), I('MAP', [I('CAR')])]
        elif k == 'MAP list':
            code = [PUSH(lt, lv), I('MAP', body)]
        elif k == 'ITER map':
            code = [I('NIL', TY(T.pair(kt, vt))), PUSH(mt, mv), I('ITER', [I('CONS')])]
        elif k == 'ITER set':
            code = [I('NIL', TY(kt)), PUSH(st, keys), I('ITER', [I('CONS')])]
        elif k == 'UPDATE map':
            code = [PUSH(mt, mv), PUSH(T.option(vt), rng.choice([None, ('Some', G.gen_value(rng, vt, 1))])), PUSH(kt, key), I('UPDATE')]
        elif k == 'GET_AND_UPDATE':
            code = [PUSH(mt, mv), PUSH(T.option(vt), rng.choice([None, ('Some', G.gen_value(rng, vt, 1))])), PUSH(kt, key), I('GET_AND_UPDATE'), I('PAIR')]
        elif k == 'UPDATE set':
            code = [PUSH(st, keys), PUSH(T.BOOL, rng.random() < 0.6), PUSH(kt, key), I('UPDATE')]
        elif k == 'GET map':
            code = [PUSH(mt, mv), PUSH(kt, key), I('GET')]
        elif k == 'EDIV':
            a, b = rng.choice([(T.NAT, T.NAT), (T.INT, T.NAT), (T.MUTEZ, T.NAT), (T.MUTEZ, T.MUTEZ)])
            code = [PUSH(b, rng.choice([0, 3])), PUSH(a, 7), I('EDIV')]
        elif k == 'UNPACK':
            if not T.packable(kt):
                continue
            code = [PUSH(kt, key), I('PACK'), I('UNPACK', TY(kt))]
        elif k == 'LEFT':
            code = [PUSH(kt, key), I('LEFT', TY(vt)), PUSH(vt, G.gen_value(rng, vt, 1)), I('RIGHT', TY(kt)), I('PAIR')]
        elif k == 'NONE':
            code = [I('NONE', TY(mt)), I('NIL', TY(st)), I('EMPTY_MAP', TY(kt), TY(lt)), I('EMPTY_SET', TY(kt)), I('PAIR', N(4))]
        elif k == 'IF_CONS':
            code = [PUSH(lt, lv), I('IF_CONS', [I('PAIR'), I('SOME')], [I('NONE', TY(T.pair(vt, lt)))])]
        elif k == 'LOOP_LEFT':
            code = [PUSH(T.or_(kt, vt), ('L', key)), I('LOOP_LEFT', [I('DROP'), PUSH(vt, G.gen_value(rng, vt, 1)), I('RIGHT', TY(kt))])]
        elif k == 'CONS':
            code = [PUSH(lt, lv), PUSH(vt, G.gen_value(rng, vt, 1)), I('CONS'), PUSH(T.list_(lt), []), I('SWAP'), I('CONS')]
        elif k == 'PAIR n':
            code = [PUSH(mt, mv), PUSH(st, keys), PUSH(kt, key), PUSH(lt, lv), I('PAIR', N(4)), I('UNPAIR', N(3)), I('PAIR', N(3))]
        else:
            code = [PUSH(T.pair(kt, vt, T.NAT), (key, (G.gen_value(rng, vt, 1), 1))), PUSH(mt, mv), I('UPDATE', N(rng.choice([1, 3, 4])))]
        out.append(('transformer:' + k, code))
    return out


def run(ctx):
    if not K.calibrated(ctx):
        return
    ctx.rule = ('the C01 workload (sweeps, environment programs, compiled programs) judged on TYPES: after every instruction the declared '
                'class type of every slot vs the static type tracked by the reference interpreter, and a deep walk of every final '
                'slot (prim/args of every nested component); plus collection transformers (MAP/ITER/UPDATE/GET_AND_UPDATE/EDIV/'
                'UNPACK/LEFT/NONE/CONS/PAIR n over composite key and element shapes, empty collections included); distinct by program '
                'text; non-trivial = >= 3 distinct primitives; plus the real-contract calls of C01 (mainnet scripts shipped with the '
                'repository tests) judged on the declared type of every slot after every instruction')
    i = 0
    for label, code in transformer_programs(ctx.rng, ctx.pick(1200, 60000) // ctx.nshards):
        ctx.count('transformer_programs')
        K.run_case(ctx, PID, label, code, None, 'types', True)
    c01.workload(ctx, PID, 'types', True)
    from rv.checks import _real as R
    R.workload(ctx, PID, 'types')
    ctx.require('real_contract_agree' if not ctx.violations else 'real_contract_calls', 20)
    ctx.require('agree', 300)
    ctx.require('deep_conformance_walks', 300)
    ctx.require('transformer_programs', 100)


def replay(ctx, case):
    if case.get('label') == 'real-contract':
        from rv.checks import _real as R
        return R.replay(ctx, PID, case, 'types')
    K.run_case(ctx, PID, case.get('label', 'replay'), case['code'], K.env_from_json(case.get('env')), 'types', True, poison=case.get('poison'))
