"""C12 — Python-object conversion of contract data round-trips (inverse-law monitor + naming model)."""
import random

from rv.checks.c04 import annotate, safe_annot
from rv.gen import typed as G
from rv.hooks import drive as D
from rv.hooks import extract as X
from rv.model import micheline_bin as MB
from rv.model import pack as P
from rv.model import types as T

LEVEL = 'exploration'
SHARDS = {'quick': 4, 'thorough': 16}


def subtypes(t):
    yield t
    for a in t[1:]:
        yield from subtypes(a)


def features(t, v=None):
    f = set()
    for x in subtypes(t):
        if x[0] == 'option' and x[1][0] == 'option':
            f.add('option-of-option')
        if x[0] == 'option' and x[1][0] == 'unit':
            f.add('option-of-unit')
        if x[0] in ('set', 'map', 'big_map') and x[1][0] in ('pair', 'or', 'option'):
            f.add('composite-key')
        if x[0] == 'or':
            f.add('or')
        if x[0] == 'lambda':
            f.add('lambda')
        if x[0] in ('bls12_381_fr', 'bls12_381_g1', 'bls12_381_g2'):
            f.add('bls')
        if x[0] == 'big_map':
            f.add('big_map')
        if x[0] == 'timestamp':
            f.add('timestamp')
        if x[0] in ('key', 'key_hash', 'signature'):
            f.add(x[0])
    return '+'.join(sorted(f)) or 'plain'


def gen_type(rng, depth):
    r = rng.random()
    if r < 0.12:
        # enum: union of units
        n = rng.choice([2, 3, 4])
        t = T.UNIT
        for _ in range(n - 1):
            t = T.or_(T.UNIT, t) if rng.random() < 0.5 else T.or_(t, T.UNIT)
        return t
    if r < 0.2:
        return T.option(T.option(G.gen_type(rng, 1)))
    if r < 0.27:
        bm = T.big_map(G.gen_type(rng, 1, 'comparable'), G.gen_type(rng, 1))
        other = G.gen_type(rng, 1)
        # big_map literals at every position a storage may hold them: record field, union variant, option, nested record in a variant
        return rng.choice([lambda: T.pair(bm, other), lambda: T.pair(other, bm), lambda: T.or_(bm, other), lambda: T.or_(other, bm),
                           lambda: T.option(bm), lambda: bm, lambda: T.pair(T.or_(T.pair(bm, T.NAT), T.UNIT), other),
                           lambda: T.or_(T.option(bm), T.pair(other, bm))])()
    return G.gen_type(rng, depth, 'packable')


def layout_names(cls, out, path='$'):
    """Collect (path, key list) for every pair/or class in the type."""
    if cls.prim in ('pair', 'or'):
        try:
            p2k, k2p, _ = cls.get_type_layout(infer_names=(cls.prim == 'or'))
            out.append((path, list(p2k.values()) if p2k else None))
        except Exception as e:
            out.append((path, 'error:%r' % (e,)))
    for i, a in enumerate(getattr(cls, 'args', []) or []):
        if hasattr(a, 'prim'):
            layout_names(a, out, '%s.%d' % (path, i))


def judge(ctx, t, v, annot_seed, annot=None):
    an = annot
    if annot_seed is not None:
        an = safe_annot(random.Random(annot_seed))
        annotate(t, an)
    texpr = T.to_micheline(t, an)
    m = P.render(v, t, 'readable')
    case = {'type_expr': texpr, 'value': m, 'annot_seed': annot_seed}
    ft = features(t)
    ctx.case((MB.encode(texpr) if True else None, repr(v)), nontrivial=T.depth(t) >= 2)
    try:
        cls = D.mk_type(t, an)
        obj = cls.from_micheline_value(m)
    except Exception as e:
        return ctx.violation('C12|cannot-build-value|' + ft, repr(e)[:300], case)
    # 1. value -> python object -> value
    ctx.count('to_python_object_calls')
    try:
        py = obj.to_python_object(lazy_diff=None)
    except Exception as e:
        return ctx.violation('C12|to_python_object-raises|%s' % errsig(e), repr(e)[:300], case)
    try:
        back = cls.from_python_object(py)
        bv = X.value_of(back)
    except Exception as e:
        if has_some_none(v, t):
            return ctx.violation('C12|nested-option-collapses', '%r py=%r' % (e, py), case)
        return ctx.violation('C12|from_python_object-raises|%s' % errsig(e), '%r py=%r' % (e, py), case)
    ctx.count('python_roundtrips')
    if not same(bv, v, t):
        if has_some_none(v, t):
            return ctx.violation('C12|nested-option-collapses', 'py=%r back=%r want=%r' % (py, bv, v), case)
        dp = diffpath(bv, v, t)
        dp = dp[dp.rfind('option(None-vs-Some)'):] if 'option(None-vs-Some)' in dp else '>'.join(dp.split('>')[-2:])
        return ctx.violation('C12|python-roundtrip-differs|' + dp, 'py=%r back=%r want=%r' % (py, bv, v), case)
    # 2. contract-level helpers are mutual inverses
    try:
        from pytezos.context.impl import ExecutionContext
        from pytezos.contract.data import ContractData
        cd = ContractData(ExecutionContext(), obj)
        d1 = cd.decode(m)
        e1 = cd.encode(d1, mode='readable')
        ctx.count('contract_data_roundtrips')
        if MB.nf(e1) != MB.nf(cls.from_micheline_value(m).to_micheline_value(mode='readable', lazy_diff=None)):
            ctx.violation('C12|encode-decode-differs|' + ('option-of-option' if 'option-of-option' in ft else ft), 'm=%r decode=%r encode=%r' % (m, d1, e1), case)
        else:
            d2 = cd.decode(e1)
            if not pyeq(d1, d2):
                ctx.violation('C12|decode-encode-differs|' + ('option-of-option' if 'option-of-option' in ft else ft), 'obj=%r -> %r' % (d1, d2), case)
    except Exception as e:
        ctx.violation('C12|ContractData-raises|%s' % errsig(e), repr(e)[:300], case)
    # 3. field names unique and stable
    n1, n2 = [], []
    layout_names(cls, n1)
    layout_names(D.mk_type(t, an), n2)
    ctx.count('layouts_checked', len(n1))
    if n1 != n2:
        ctx.violation('C12|field-names-unstable|' + ft, '%r vs %r' % (n1, n2), case)
    for path, keys in n1:
        if isinstance(keys, str):
            ctx.violation('C12|layout-raises|' + ft, '%s: %s' % (path, keys), case)
        elif keys is not None and len(keys) != len(set(keys)):
            ctx.violation('C12|field-names-not-unique|' + ft, '%s: %r' % (path, keys), case)
    if len(ctx.samples) < 3 and an and an.marks and T.depth(t) >= 2:
        ctx.samples.append({'type': texpr, 'value': m, 'python_object': repr(py)[:300]})


def has_some_none(v, t):
    """The value contains Some None at a position of type option (option _): the known collapsing mechanism."""
    p = t[0]
    if p == 'option':
        if v is None:
            return False
        if t[1][0] == 'option' and v[1] is None:
            return True
        return has_some_none(v[1], t[1])
    if p == 'pair':
        return has_some_none(v[0], t[1]) or has_some_none(v[1], t[2])
    if p == 'or':
        return has_some_none(v[1], t[1] if v[0] == 'L' else t[2])
    if p in ('list', 'set'):
        return any(has_some_none(x, t[1]) for x in v)
    if p in ('map', 'big_map'):
        return any(has_some_none(k, t[1]) or has_some_none(x, t[2]) for k, x in v)
    return False


def errsig(e):
    args = [str(a) for a in getattr(e, 'args', [])]
    prims = [a for a in args[:-1] if a.islower() or '_' in a]
    import re
    msg = re.sub(r'[0-9a-fA-F]{6,}|[0-9]+|`[^`]*`|\'[^\']*\'', '#', args[-1] if args else '')[:50]
    return '%s|%s' % ('>'.join(prims[-3:]), msg)


def same(a, b, t):
    """Model-value equality; lambdas are compared after normalising the code spelling."""
    if t[0] == 'lambda':
        try:
            return MB.nf(a) == MB.nf(b)
        except Exception:
            return a == b
    if t[0] == 'pair':
        return same(a[0], b[0], t[1]) and same(a[1], b[1], t[2])
    if t[0] == 'option':
        if a is None or b is None:
            return a is b
        return same(a[1], b[1], t[1])
    if t[0] == 'or':
        return a[0] == b[0] and same(a[1], b[1], t[1] if a[0] == 'L' else t[2])
    if t[0] in ('list', 'set'):
        return len(a) == len(b) and all(same(x, y, t[1]) for x, y in zip(a, b))
    if t[0] == 'map':
        return len(a) == len(b) and all(same(x[0], y[0], t[1]) and same(x[1], y[1], t[2]) for x, y in zip(a, b))
    if t[0] == 'big_map':
        ia = a[2] if isinstance(a, tuple) and a and a[0] == 'big_map' else a
        ib = b[2] if isinstance(b, tuple) and b and b[0] == 'big_map' else b
        return len(ia) == len(ib) and all(same(x[0], y[0], t[1]) and same(x[1], y[1], t[2]) for x, y in zip(ia, ib))
    return a == b


def diffpath(a, b, t):
    """Chain of type constructors down to the first difference (mechanism signature)."""
    p = t[0]
    try:
        if p == 'pair':
            return 'pair>' + (diffpath(a[0], b[0], t[1]) if not same(a[0], b[0], t[1]) else diffpath(a[1], b[1], t[2]))
        if p == 'option':
            if a is None or b is None:
                return 'option(None-vs-Some)' + ('>' + t[1][0] if True else '')
            return 'option>' + diffpath(a[1], b[1], t[1])
        if p == 'or':
            if a[0] != b[0]:
                return 'or(branch)'
            return 'or>' + diffpath(a[1], b[1], t[1] if a[0] == 'L' else t[2])
        if p in ('list', 'set'):
            if len(a) != len(b):
                return p + '(length)'
            for x, y in zip(a, b):
                if not same(x, y, t[1]):
                    return p + '>' + diffpath(x, y, t[1])
        if p in ('map', 'big_map'):
            return p
    except Exception:
        pass
    return p


def pyeq(a, b):
    try:
        return a == b
    except Exception:
        return repr(a) == repr(b)


def judge_entrypoints(ctx, rng):
    """ContractEntrypoint.decode / encode are mutual inverses (named union parameters)."""
    from pytezos.context.impl import ExecutionContext
    from pytezos.contract.entrypoint import ContractEntrypoint
    from rv.checks import c13
    for n in (1, 2, 3, 4):
        for shape in c13.shapes(n):
            leaves = [p for p, s in c13.nodes_of(shape) if s == 'L']
            names = ['a', 'b', 'c', 'd'][:len(leaves)]
            rng.shuffle(names)
            ann = dict(zip(leaves, names)) if n > 1 else {}
            lt = {p: rng.choice(c13.LEAF_TYPES) for p in leaves}
            texpr = c13.build_type(shape, ann, lt)
            cx = ExecutionContext()
            cx.parameter_expr = {'prim': 'parameter', 'args': [texpr]}
            targets = [(ann[p], p) for p in leaves] if n > 1 else [('default', '')]
            for name, path in targets:
                for a in c13.sub_values(shape, lt, path):
                    case = {'parameter': texpr, 'entrypoint': name, 'argument': a}
                    ctx.count('entrypoint_roundtrips')
                    ctx.case(('ep', MB.encode(texpr), name, repr(a)), nontrivial=n > 1)
                    try:
                        d = ContractEntrypoint(cx, name).decode(a)
                        if n > 1 and isinstance(d, str) and d == name:
                            from pytezos.michelson.types.core import Unit
                            arg = Unit  # enum: the documented object is the branch name
                        elif n > 1:
                            if not (isinstance(d, dict) and list(d) == [name]):
                                ctx.violation('C12|entrypoint-decode-shape', 'decode gave %r for entrypoint %s' % (d, name), case)
                                continue
                            arg = d[name]
                        else:
                            arg = d.get('default') if isinstance(d, dict) and 'default' in d else d
                        enc = ContractEntrypoint(cx, name).encode(arg, mode='readable')
                    except Exception as e:
                        ctx.violation('C12|entrypoint-encode-decode-raises|' + errsig(e), '%r' % (e,), case)
                        continue
                    if enc.get('entrypoint') != name or MB.nf(enc.get('value')) != MB.nf(a):
                        ctx.violation('C12|entrypoint-encode-decode-differs', 'decode=%r encode=%r' % (d, enc), case)
                        continue
                    # one long-lived helper (they live as attributes of a ContractInterface): decoding somebody else's parameters with
                    # the entrypoint= override must not re-target it
                    others = [(o, p_) for o, p_ in targets if o != name]
                    if others:
                        oname, opath = others[0]
                        try:
                            h = ContractEntrypoint(cx, name)
                            h.decode(c13.sub_values(shape, lt, opath)[0], entrypoint=oname)
                            enc2 = h.encode(arg, mode='readable')
                            ctx.count('helper_reused_after_decode_with_override')
                            if enc2 != enc:
                                ctx.violation('C12|entrypoint-helper-retargeted-by-decode-override', 'encode after decode(entrypoint=%r) gave %r, before %r' % (oname, enc2, enc), case)
                        except Exception as e:
                            ctx.violation('C12|entrypoint-helper-retargeted-by-decode-override', 'after decode(entrypoint=%r): %r' % (oname, e), case)


def judge_spellings(ctx, rng):
    """Python spellings of the same value that from_python_object accepts (bytes: bytes / hex text / 0x-prefixed hex text;
    timestamp: int / RFC 3339 text) denote the same value, bare and inside records and maps."""
    from rv.hooks import extract as X_
    samples = [b'', b'\x00', b'\x00\xff', b'\x0a', b'\x05\x00\x00', b'\xff\x00', b'\x00\x00\x01', bytes(range(7)), b'\x10', b'0x']
    samples += [bytes(rng.getrandbits(8) for _ in range(rng.choice([1, 2, 5, 32]))) for _ in range(6)]
    shapes_ = [('bare', T.BYTES, lambda x: x, lambda x: x), ('record', T.pair(T.BYTES, T.NAT), lambda x: (x, 7), lambda x: (x, 7)),
               ('map-value', T.map_(T.NAT, T.BYTES), lambda x: {1: x}, lambda x: [(1, x)]), ('option', T.option(T.BYTES), lambda x: x, lambda x: ('Some', x))]
    for b in samples:
        for name, t, mkpy, mkmodel in shapes_:
            cls = D.mk_type(t)
            for how, spelled in (('bytes', b), ('hex', b.hex()), ('0x-hex', '0x' + b.hex())):
                if how == 'hex' and not b:
                    continue
                ctx.count('python_spellings')
                ctx.case(('spelling', name, b, how), nontrivial=True)
                case = {'spelling': how, 'shape': name, 'bytes': b.hex()}
                try:
                    got = X_.value_of(cls.from_python_object(mkpy(spelled)))
                except Exception:
                    ctx.count('python_spellings_refused')
                    continue
                if got != mkmodel(b):
                    ctx.violation('C12|python-spelling-denotes-another-value|bytes|' + how, '%r read as %r, the value is %r' % (spelled, got, mkmodel(b)), case)
    for ts in (0, 1, 86399, 1654703820, 253402300799):
        cls = D.mk_type(T.TIMESTAMP)
        for how, spelled in (('int', ts), ('rfc3339', P.ts_to_rfc3339(ts))):
            ctx.count('python_spellings')
            try:
                got = X_.value_of(cls.from_python_object(spelled))
            except Exception:
                ctx.count('python_spellings_refused')
                continue
            if got != ts:
                ctx.violation('C12|python-spelling-denotes-another-value|timestamp|' + how, '%r read as %r' % (spelled, got), {'spelling': how, 'timestamp': ts})


def judge_big_map_ids(ctx):
    """Storages as a node returns them hold big-map ids (0 is the first id a chain allocates): decode / encode must keep the id."""
    from pytezos.context.impl import ExecutionContext
    from pytezos.contract.data import ContractData
    bm = {'prim': 'big_map', 'args': [{'prim': 'nat'}, {'prim': 'string'}]}
    shapes_ = [('bare', bm, lambda i: i, lambda py: py),
               ('record', {'prim': 'pair', 'args': [dict(bm, annots=['%ledger']), {'prim': 'nat', 'annots': ['%total']}]},
                lambda i: {'prim': 'Pair', 'args': [i, {'int': '7'}]}, lambda py: py['ledger']),
               ('option', {'prim': 'option', 'args': [bm]}, lambda i: {'prim': 'Some', 'args': [i]}, lambda py: py),
               ('variant', {'prim': 'or', 'args': [dict(bm, annots=['%live']), {'prim': 'unit', 'annots': ['%frozen']}]},
                lambda i: {'prim': 'Left', 'args': [i]}, lambda py: py['live'])]
    for name, texpr, mk, pick in shapes_:
        for ident in (0, 1, 17, 2 ** 31):
            m = mk({'int': str(ident)})
            case = {'type_expr': texpr, 'value': m, 'big_map_id': ident}
            ctx.count('big_map_id_roundtrips')
            ctx.case(('bm-id', name, ident), nontrivial=True)
            try:
                from pytezos.michelson.types.base import MichelsonType
                cls = MichelsonType.match(texpr)
                cd = ContractData(ExecutionContext(), cls.from_micheline_value(m))
                py = cd.decode(m)
                back = cd.encode(py, mode='readable')
            except Exception as e:
                ctx.violation('C12|ContractData-raises|big-map-id|%s' % errsig(e), repr(e)[:300], case)
                continue
            if pick(py) != ident:
                ctx.violation('C12|decode-loses-big-map-id|%s|id=%s' % (name, '0' if ident == 0 else 'positive'), 'decode gave %r' % (py,), case)
            elif MB.nf(back) != MB.nf(m):
                ctx.violation('C12|encode-decode-differs|big-map-id|' + name, 'decode=%r encode=%r' % (py, back), case)


def run(ctx):
    rng = ctx.rng
    judge_entrypoints(ctx, rng)
    if ctx.mine(0):
        judge_big_map_ids(ctx)
        judge_spellings(ctx, rng)
    ctx.require('entrypoint_roundtrips', 20)
    n = ctx.pick(3000, 150000) // ctx.nshards
    ctx.rule = ('storage/parameter types depth<=%d with random field/type annotations on pair and union members (named, unnamed, '
                'duplicate names), enums, nested options, collections with composite keys, big_map literals; per value: '
                'from_python_object(to_python_object(v)) == v, ContractData.encode/decode inverse laws, field-name uniqueness and '
                'stability across two constructions of the type; distinct by (type, value); non-trivial = composite type'
                % ctx.pick(3, 4))
    for i in range(n):
        t = gen_type(rng, rng.randint(0, ctx.pick(3, 4)))
        v = G.gen_value(rng, t)
        seed_ = rng.getrandbits(32) if i % 2 else None
        judge(ctx, t, v, seed_)
        ctx.remember(judge, ctx, t, v, seed_)
    # collections of 9, 10, 11 ... hundreds of elements, wide combs, deep nestings, long strings
    for k, (label, t, v) in enumerate(G.large_values(rng, ctx.quick)):
        if ctx.mine(k):
            ctx.count('large_values')
            judge(ctx, t, v, k if k % 2 else None)
    # recorded arguments and storage parts of the mainnet corpus under their real annotated types (records with named fields,
    # entrypoint unions, maps of records)
    from rv.gen import corpus as C
    for k, (label, texpr, t, v, src) in enumerate(C.typed_values()):
        if ctx.mine(k) and T.packable(t):
            ctx.count('corpus_values')
            judge(ctx, t, v, None, C.annot_fn(texpr))
    ctx.run_again()
    ctx.require('python_roundtrips', 100)
    ctx.require('contract_data_roundtrips', 50)
    ctx.require('layouts_checked', 50)


def replay(ctx, case):
    if 'spelling' in case:
        return judge_spellings(ctx, ctx.rng)
    if 'big_map_id' in case:
        return judge_big_map_ids(ctx)
    if 'parameter' in case:
        return judge_entrypoints(ctx, ctx.rng)

    def strip(e):
        if isinstance(e, list):
            return [strip(x) for x in e]
        o = {'prim': e['prim']}
        if e.get('args'):
            o['args'] = [strip(a) for a in e['args']]
        return o
    t = T.from_micheline(strip(case['type_expr']))
    v = P.parse(case['value'], t)
    from rv.gen import corpus as C
    judge(ctx, t, v, case.get('annot_seed'), C.annot_fn(case['type_expr']) if case.get('annot_seed') is None else None)
