"""Real-contract workload for the lock-step interpreter checks (C01 values, C02 types): the mainnet scripts and recorded
operations shipped with the repository's tests, called through Interpreter.run_code under the instruction hook and compared
instruction by instruction with the reference interpreter (see rv.core.lockstep.run_real_contract).

Variation per recorded call: sender/source drawn from the addresses found in the recorded storage (so that administrator
checks pass as well as fail), amount, now/level, big maps empty or filled from the recorded lazy-storage diff; at the
thorough tier also random arguments of every entrypoint's type (recorded or not)."""
from rv.checks import _lock as K
from rv.core import lockstep as L
from rv.gen import corpus as C
from rv.gen import typed as G
from rv.model import pack as P
from rv.model import types as T

DEFAULT_SENDER = P.address_from_str('tz1VSUr8wwNhLAzempoch5d6hLRiTh8Cjcjb')


def addresses_in(t, v, out, limit=12):
    if len(out) >= limit:
        return
    p = t[0]
    if p == 'address':
        if v[1] == '' and v not in out:
            out.append(v)
    elif p == 'pair':
        addresses_in(t[1], v[0], out, limit)
        addresses_in(t[2], v[1], out, limit)
    elif p == 'option' and v is not None:
        addresses_in(t[1], v[1], out, limit)
    elif p == 'or':
        addresses_in(t[1] if v[0] == 'L' else t[2], v[1], out, limit)
    elif p in ('list', 'set'):
        for x in v[:4]:
            addresses_in(t[1], x, out, limit)
    elif p in ('map', 'big_map'):
        for k, x in v[:4]:
            addresses_in(t[1], k, out, limit)
            addresses_in(t[2], x, out, limit)


def generable(t):
    return not any(T.contains(t, p) for p in ('lambda', 'contract', 'ticket', 'operation', 'big_map', 'sapling_state',
                                              'sapling_transaction', 'never', 'chest', 'chest_key', 'tx_rollup_l2_address'))


def calls(ctx):
    """-> iterator of (label, contract, entrypoint, path, type expr, argument, storage literal, env)"""
    rng = ctx.rng
    for c in C.contracts():
        eps = C.entrypoints(c['parameter'])
        try:
            st = L.I.ty(c['storage'])
        except Exception:
            continue
        for op in c['operations']:
            p = op['parameters']
            ep = p.get('entrypoint', 'default')
            if ep not in eps or op['storage'] is None:
                continue
            path, tx = eps[ep]
            arg = p.get('value', {'prim': 'Unit'})
            filled = L.self_contained_storage(c['storage'], op['storage'], op['lazy_storage_diff'], fill=True)
            empty = L.self_contained_storage(c['storage'], op['storage'], op['lazy_storage_diff'], fill=False)
            senders = [DEFAULT_SENDER]
            try:
                addresses_in(st, P.parse(filled, st), senders)
                addresses_in(L.I.ty(tx), P.parse(arg, L.I.ty(tx)), senders)
            except Exception:
                pass
            variants = []
            for k, s in enumerate(senders[:ctx.pick(2, 12)]):
                variants.append((s, 0, filled))
                if k == 1 or not ctx.quick and k < 3:
                    variants.append((s, 1000000, filled))
            variants.append((senders[-1], 0, empty))
            for k, (s, amount, storage) in enumerate(variants):
                env = {'sender': s, 'source': s if k % 2 == 0 else DEFAULT_SENDER, 'amount': amount, 'balance': 5000000 + amount,
                       'now': 1654703820 + 1000 * k, 'level': 2400000 + k}
                yield ('%s/%s#%d' % (c['name'], op['name'], k), c, ep, path, tx, arg, storage, env)
            if not ctx.quick:
                # random arguments for every entrypoint on this recorded state
                for name, (epath, etx) in sorted(eps.items()):
                    try:
                        et = L.I.ty(etx)
                    except Exception:
                        continue
                    if not generable(et):
                        continue
                    for k in range(3):
                        v = G.gen_value(rng, et, 2)
                        s = senders[rng.randrange(len(senders))]
                        env = {'sender': s, 'source': s, 'amount': rng.choice([0, 0, 1, 10 ** 6]), 'balance': 10 ** 7,
                               'now': rng.randrange(1, 2 * 10 ** 9), 'level': rng.randrange(1, 10 ** 7)}
                        yield ('%s/%s@%s~%d' % (c['name'], op['name'], name, k), c, name, epath, etx, P.render(v, et, rng.choice(['readable', 'optimized'])),
                               filled, env)


def workload(ctx, pid, mode, only=None):
    i = 0
    for label, c, ep, path, tx, arg, storage, env in calls(ctx):
        i += 1
        if not ctx.mine(i):
            continue
        ctx.count('real_contract_calls')
        out = L.run_real_contract(c['code'], ep, path, tx, arg, storage, env, mode, deep=(mode == 'types'))
        ctx.count('real_contract_objects_walked_for_self_consistency', getattr(out, 'walks', 0) or 0)
        case = {'label': 'real-contract', 'contract': c['name'], 'entrypoint': ep, 'argument': arg, 'storage': storage, 'env': K.env_to_json(env)}
        ctx.case(K.code_key([c['name'], ep, arg, storage], env), nontrivial=bool(out.mon and len(out.mon.events) >= 12))
        ctx.count('real_contract_' + str(out.kind))
        if out.kind in ('unsupported', 'inconclusive'):
            if ctx.counters['real_contract_' + out.kind] <= 3:
                ctx.extra.setdefault('real_contract_not_judged_examples', []).append({'call': label, 'why': str(out.detail)[:200]})
            continue
        for p_, n in out.mon.prims.items():
            ctx.counters['hook_' + p_] += n
        ctx.count('hook_events', len(out.mon.events))
        ctx.count('real_contract_hook_events', len(out.mon.events))
        ctx.count('real_contract_model_' + out.model.kind)
        for p_, n in getattr(out.model, 'adopted', {}).items():
            ctx.counters['real_contract_adopted_' + p_] += n
        ctx.count('real_contract_big_maps_compared_with_lazy_diff', getattr(out, 'bigmaps_compared', 0) or 0)
        if getattr(out, 'lazy_diff_not_judged', None):
            ctx.count('real_contract_lazy_diff_not_judged')
        if out.kind == 'agree':
            ctx.count('agree')
            ctx.extra.setdefault('real_contract_longest_agreeing_trace', 0)
            ctx.extra['real_contract_longest_agreeing_trace'] = max(ctx.extra['real_contract_longest_agreeing_trace'], len(out.mon.events))
            continue
        if mode == 'types' and getattr(out, 'div', {}).get('class') not in ('type', 'stack-depth') and 'deep-type' not in str(out.sig):
            ctx.count('diverged_for_non_type_reasons_not_judged_here')
            continue
        if only and not str(out.sig).startswith(only):
            ctx.count('diverged_for_reasons_judged_by_another_check')
            continue
        ctx.violation('%s|%s' % (pid, out.sig), 'real contract %s: %s' % (label, out.detail), case)


def replay(ctx, pid, case, mode, only=None):
    c = next((x for x in C.contracts() if x['name'] == case['contract']), None)
    if c is None:
        return ctx.inconc('contract %s is not in the tree' % case['contract'])
    eps = C.entrypoints(c['parameter'])
    path, tx = eps[case['entrypoint']]
    out = L.run_real_contract(c['code'], case['entrypoint'], path, tx, case['argument'], case['storage'], K.env_from_json(case.get('env')), mode, deep=(mode == 'types'))
    ctx.count('real_contract_' + str(out.kind))
    if out.kind == 'violation' and (not only or str(out.sig).startswith(only)):
        ctx.violation('%s|%s' % (pid, out.sig), str(out.detail), case)
