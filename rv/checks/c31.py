"""C31 — operation list / list-list / payload hashes follow the Tezos Merkle construction."""
import hashlib

from rv.model import base58 as B
from rv.model import merkle as MK

LEVEL = 'exploration'
SHARDS = {'quick': 1, 'thorough': 8}


def ophash(raw):
    return B.encode(raw, 'o')


def gen_hashes(rng, n, style):
    if style == 'random':
        return [bytes(rng.getrandbits(8) for _ in range(32)) for _ in range(n)]
    if style == 'same':
        x = bytes(rng.getrandbits(8) for _ in range(32))
        return [x] * n
    if style == 'zeros':
        return [b'\x00' * 32] * n
    if style == 'ones':
        return [b'\xff' * 32] * n
    if style == 'last-repeated':
        xs = [bytes(rng.getrandbits(8) for _ in range(32)) for _ in range(n)]
        if n == 0:
            return []
        return xs[:max(1, n // 2)] + [xs[max(1, n // 2) - 1]] * (n - max(1, n // 2))
    if style == 'counter':
        return [i.to_bytes(32, 'big') for i in range(n)]
    raise KeyError(style)


STYLES = ['random', 'same', 'zeros', 'ones', 'last-repeated', 'counter']


def judge_list(ctx, raws, style):
    from pytezos.crypto import hash as Hm
    hs = [ophash(r) for r in raws]
    case = {'kind': 'list', 'hashes': hs}
    want = B.encode(MK.root(raws), 'Lo')
    ctx.count('operation_list_hash_calls')
    ctx.case(('l', tuple(raws)), nontrivial=len(raws) >= 2)
    try:
        got = Hm.operation_list_hash(hs)
    except Exception as e:
        return ctx.violation('C31|list-raises|n=%s' % shape(len(raws)), repr(e), case)
    if got != want:
        return ctx.violation('C31|list-hash|n=%s' % shape(len(raws)), 'n=%d got=%s want=%s' % (len(raws), got, want), case)
    if raws and len(raws) % 3 == 1:
        # the caller's list edited in place and hashed again, then an equal fresh list: the hash is of what the list holds now
        extra = bytes(hashlib.blake2b(raws[0] + b'x', digest_size=32).digest())
        hs[0] = ophash(extra)
        want2 = B.encode(MK.root([extra] + list(raws[1:])), 'Lo')
        ctx.count('lists_hashed_again_after_an_in_place_edit')
        for label, arg in (('same-list-object', hs), ('equal-fresh-list', list(hs))):
            try:
                got2 = Hm.operation_list_hash(arg)
            except Exception as e:
                return ctx.violation('C31|list-raises|after-in-place-edit', repr(e), case)
            if got2 != want2:
                return ctx.violation('C31|list-hash|after-in-place-edit|' + label, 'got=%s want=%s' % (got2, want2), dict(case, edited_first=ophash(extra)))
    return got


def shape(n):
    if n <= 2:
        return str(n)
    return 'pow2' if n & (n - 1) == 0 else ('pow2+1' if (n - 1) & (n - 2) == 0 else ('pow2-1' if (n + 1) & n == 0 else 'other'))


def judge_listlist(ctx, rawss):
    from pytezos.crypto import hash as Hm
    hss = [[ophash(r) for r in raws] for raws in rawss]
    case = {'kind': 'listlist', 'hashes': hss}
    inner = [MK.root(raws) for raws in rawss]
    want = B.encode(MK.root(inner), 'LLo')
    ctx.count('operation_list_list_hash_calls')
    ctx.case(('ll', tuple(tuple(r) for r in rawss)), nontrivial=len(rawss) >= 2)
    try:
        got = Hm.operation_list_list_hash(hss)
    except Exception as e:
        return ctx.violation('C31|listlist-raises', repr(e), case)
    if got != want:
        ctx.violation('C31|listlist-hash|n=%s' % shape(len(rawss)), 'shape=%r got=%s want=%s' % ([len(x) for x in rawss], got, want), case)


def judge_payload(ctx, pred_raw, rnd, raws):
    from pytezos.crypto import hash as Hm
    hs = [ophash(r) for r in raws]
    pred = B.encode(pred_raw, 'B')
    case = {'kind': 'payload', 'pred': pred, 'round': rnd, 'hashes': hs}
    want = B.encode(hashlib.blake2b(pred_raw + rnd.to_bytes(4, 'big') + MK.root(raws), digest_size=32).digest(), 'vh')
    ctx.count('block_payload_hash_calls')
    ctx.case(('p', pred_raw, rnd, tuple(raws)), nontrivial=True)
    try:
        got = Hm.block_payload_hash(pred, rnd, hs)
    except Exception as e:
        return ctx.violation('C31|payload-raises', repr(e), case)
    if got != want:
        ctx.violation('C31|payload-hash|n=%s' % shape(len(raws)), 'round=%d n=%d got=%s want=%s' % (rnd, len(raws), got, want), case)


def run(ctx):
    rng = ctx.rng
    ctx.rule = ('every list length 0..130 (thorough: 0..600 + sparse to 3000) x styles %s; list-of-lists shapes incl. empty '
                'inner lists; payload rounds {0,1,2^31-1,random}; distinct by raw hash tuple; non-trivial = at least two '
                'leaves' % STYLES)
    maxn = ctx.pick(130, 600)
    i = 0
    for n in list(range(0, maxn + 1)) + ([] if ctx.quick else [1023, 1024, 1025, 2047, 2048, 2049, 3000]):
        for style in (STYLES if n <= 40 or not ctx.quick else ['random', 'last-repeated']):
            i += 1
            if not ctx.mine(i):
                continue
            raws = gen_hashes(rng, n, style)
            got = judge_list(ctx, raws, style)
            if len(ctx.samples) < 3 and n == 3 and got:
                ctx.samples.append({'n': n, 'style': style, 'hashes': [ophash(r) for r in raws], 'operation_list_hash': got})
    for _ in range(ctx.pick(400, 6000) // ctx.nshards):
        k = rng.choice([0, 1, 2, 3, 4, 4, 4, 5, 8, 9])
        rawss = [gen_hashes(rng, rng.choice([0, 0, 1, 2, 3, 5, 8, 17]), rng.choice(STYLES)) for _ in range(k)]
        judge_listlist(ctx, rawss)
    # validation passes that are all empty, or empty but for one: the shapes of blocks without operations
    if ctx.mine(0):
        for k in range(0, 9):
            ctx.count('all_empty_pass_shapes')
            judge_listlist(ctx, [[] for _ in range(k)])
            for j in range(k):
                judge_listlist(ctx, [gen_hashes(rng, 1 if i == j else 0, 'random') for i in range(k)])
    for _ in range(ctx.pick(600, 8000) // ctx.nshards):
        n = rng.choice([0, 1, 2, 3, 4, 5, 7, 8, 9, 31, 33, rng.randint(0, 130)])
        rnd = rng.choice([0, 1, 2, 255, 256, 2 ** 31 - 1, rng.getrandbits(31)])
        judge_payload(ctx, bytes(rng.getrandbits(8) for _ in range(32)), rnd, gen_hashes(rng, n, rng.choice(STYLES)))
    # the same predecessor and round with different operation lists, one after the other
    for _ in range(ctx.pick(20, 300) // ctx.nshards + 1):
        pred = bytes(rng.getrandbits(8) for _ in range(32))
        rnd = rng.choice([0, 1, 7])
        for n in (3, 0, 5, 3, 1):
            ctx.count('payloads_on_the_same_predecessor_and_round')
            judge_payload(ctx, pred, rnd, gen_hashes(rng, n, 'random'))
    ctx.require('operation_list_hash_calls', 50)
    ctx.require('operation_list_list_hash_calls', 20)
    ctx.require('block_payload_hash_calls', 20)


def replay(ctx, case):
    raw = lambda h: B.decode(h, 'o')
    if case['kind'] == 'list':
        judge_list(ctx, [raw(h) for h in case['hashes']], 'replay')
    elif case['kind'] == 'listlist':
        judge_listlist(ctx, [[raw(h) for h in hs] for hs in case['hashes']])
    else:
        judge_payload(ctx, B.decode(case['pred'], 'B'), case['round'], [raw(h) for h in case['hashes']])
