"""C05 — Micheline binary encoding round-trips and decodes strictly.
Monitors forge_micheline / unforge_micheline against the independent codec rv/model/micheline_bin.py."""
from rv.gen import micheline as G
from rv.model import micheline_bin as M

LEVEL = 'exploration'
SHARDS = {'quick': 4, 'thorough': 16}


def pt_decode(data):
    from pytezos.michelson.forge import unforge_micheline
    try:
        return 'accept', unforge_micheline(data)
    except Exception as e:
        return 'reject', e
    except RecursionError as e:  # pragma: no cover
        return 'reject', e


def judge_tree(ctx, e, seen):
    from pytezos.michelson.forge import forge_micheline
    case = {'expr': e}
    try:
        got = forge_micheline(e)
    except Exception as ex:
        return ctx.violation('C05|forge-raises|' + type(ex).__name__, repr(ex), case)
    ctx.count('forge_calls')
    want = M.encode(e)
    n = M.nf(e)
    ctx.case(got, nontrivial=G.size(e) >= 3)
    if got != want:
        return ctx.violation('C05|forge-bytes-differ|' + first_diff_class(got, want),
                             'pytezos=%s model=%s' % (got.hex()[:200], want.hex()[:200]), case)
    st, tree = pt_decode(got)
    ctx.count('unforge_calls')
    if st != 'accept':
        return ctx.violation('C05|roundtrip-rejected|' + type(tree).__name__, repr(tree), case)
    if M.nf(tree) != n:
        return ctx.violation('C05|roundtrip-differs', 'decoded=%r' % (tree,), case)
    # injectivity: the *model* decoder recovers the normal form from pytezos' bytes
    ms, mtree, why = M.decode(got)
    if ms == 'reject' or M.nf(mtree) != n:
        return ctx.violation('C05|not-injective-or-noncanonical', 'model decode of forged bytes: %s %s' % (ms, why), case)
    prev = seen.get(got)
    if prev is not None and prev != n:
        return ctx.violation('C05|collision', 'two normal forms, same bytes', case)
    seen[got] = n
    return got


def first_diff_class(a, b):
    if len(a) != len(b):
        return 'length'
    return 'content'


def judge_bytes(ctx, data, klass, origin=None):
    ms, mtree, why = M.decode(data)
    st, tree = pt_decode(data)
    ctx.count('mutants')
    ctx.count('mutant_class_' + klass)
    ctx.count('model_' + ms)
    ctx.case(data, nontrivial=True)
    case = {'bytes': data.hex(), 'class': klass, 'origin': origin}
    if klass in ('truncate', 'extend', 'nonminimal-int') and ms != 'reject':
        # structural classes are invalid by construction; the model must agree or the harness is wrong
        if not (klass == 'truncate' and len(data) == 0):
            ctx.inconc('model accepts a %s mutant: %s' % (klass, data.hex()[:80]))
            return
    if st == 'accept' and (ms == 'ok' or (ms == 'dontcare' and set(why.split('; ')) <= {'non-utf8 string', 'non-utf8 annots'})):
        # whatever is accepted is read faithfully: encoding the decoded expression gives the accepted bytes back
        from pytezos.michelson.forge import forge_micheline
        ctx.count('accepted_inputs_re_encoded')
        try:
            again = forge_micheline(tree)
        except Exception as ex:
            again = ex
        if again != data:
            return ctx.violation('C05|accepted-bytes-do-not-re-encode-to-themselves|' + (why.split(';')[0][:30] if ms == 'dontcare' else 'ok'),
                                 'bytes=%s decoded=%r re-encoded=%s' % (data.hex()[:120], tree, again.hex()[:120] if isinstance(again, bytes) else repr(again)[:120]), case)
    if ms == 'reject':
        if st == 'accept':
            ctx.violation('C05|accepts-invalid|' + why.split(' (')[0].split(' 0x')[0], 'bytes=%s decoded=%r why=%s' % (data.hex()[:120], tree, why), case)
    elif ms == 'ok':
        if st != 'accept':
            ctx.violation('C05|rejects-valid|' + type(tree).__name__, 'bytes=%s err=%r' % (data.hex()[:120], tree), case)
        elif M.nf(tree) != M.nf(mtree):
            ctx.violation('C05|decodes-differently', 'bytes=%s pytezos=%r model=%r' % (data.hex()[:120], tree, mtree), case)
    else:
        ctx.count('dontcare_' + why.split(';')[0][:30])
        if st == 'accept' and mtree is not None and 'non-utf8' not in why and 'deprecated' not in why:
            try:
                same = M.nf(tree) == M.nf(mtree)
            except Exception:
                same = False
            if not same:
                ctx.violation('C05|decodes-differently|dontcare', 'bytes=%s pytezos=%r model=%r' % (data.hex()[:120], tree, mtree), case)


def run(ctx):
    rng = ctx.rng
    ntrees = ctx.pick(6000, 320000) // ctx.nshards
    ctx.rule = ('random Micheline trees (<=60 nodes, all 158 spellable protocol primitives, ints to 4096 bits at every byte/'
                'group boundary, 0-3 annotations, empty args/annots/sequences) + byte strings derived by truncation at every '
                'length, extension, byte/bit substitution, deletion, insertion, non-minimal integer re-encoding; distinct by '
                'byte string; non-trivial tree = >=3 nodes; every mutant counts; plus every script, type section, recorded argument and '
                'storage of the mainnet corpus in the repository tests; plus strings / bytes / annotations / sequences / argument lists / '
                'nestings on both sides of 2**7, 2**8, 2**12, 2**16 and integers to 13900 bits')
    seen = {}
    for i in range(ntrees):
        e = G.tree(rng, rng.choice([1, 2, 4, 8, 20, 60]))
        data = judge_tree(ctx, e, seen)
        ctx.remember(judge_tree, ctx, e, seen)
        if len(ctx.samples) < 3:
            ctx.samples.append({'expr': e, 'bytes': data.hex() if isinstance(data, bytes) else None})
        if not isinstance(data, bytes):
            continue
        if ctx.quick or i % 4 == 0:
            for klass, m in G.structural_mutants(rng, data, 10):
                judge_bytes(ctx, m, klass, None)
        if 'int' in e if isinstance(e, dict) else False:
            for klass, m in G.nonminimal_int_mutants(data):
                judge_bytes(ctx, m, klass, None)
    # real scripts, types and values (the mainnet corpus shipped with the repository's tests)
    from rv.gen import corpus as C
    for k, (kind, e) in enumerate(C.micheline_items()):
        if ctx.mine(k):
            ctx.count('corpus_expressions')
            data = judge_tree(ctx, e, seen)
            if isinstance(data, bytes) and len(data) < 4000:
                for klass, m in G.structural_mutants(rng, data, 4):
                    judge_bytes(ctx, m, klass, None)
    # expressions past every size threshold of the encoders (shard 0 takes them all)
    if ctx.mine(0):
        for label, e in G.large_shapes(rng, ctx.quick):
            ctx.count('large_shapes')
            data = judge_tree(ctx, e, seen)
            if isinstance(data, bytes):
                head = data[:64]
                for klass, m in G.structural_mutants(rng, data, 3):
                    if klass in ('byte-subst', 'bit-flip', 'tagish-subst', 'delete-byte', 'insert-byte') or len(m) > len(data):
                        judge_bytes(ctx, m, klass, label)
                for c in (len(data) - 1, len(data) // 2, 6):
                    judge_bytes(ctx, data[:c], 'truncate', label)
                judge_bytes(ctx, data + head[-1:], 'extend', label)
    # hand-written structural cases
    for klass, hx in [('nonminimal-int', '008000'), ('nonminimal-int', '00c000'), ('nonminimal-int', '00808000'),
                      ('unknown-prim', '03ee'), ('unknown-prim', '039f'), ('unknown-prim', '03ff'), ('unknown-tag', '0b'),
                      ('unknown-tag', 'ff'), ('trailing', '030b00'), ('len-mismatch', '020000000203'),
                      ('len-mismatch', '02000000010000'), ('neg-zero', '0040'), ('empty', ''),
                      ('inner-overrun', '0200000002' + '0100000003616263')]:
        judge_bytes(ctx, bytes.fromhex(hx), klass, None)
    ctx.run_again()
    ctx.require('forge_calls', 100)
    ctx.require('unforge_calls', 100)
    ctx.require('mutants', 100)
    ctx.require('model_reject', 50)


def replay(ctx, case):
    if 'expr' in case:
        judge_tree(ctx, case['expr'], {})
    else:
        judge_bytes(ctx, bytes.fromhex(case['bytes']), case.get('class', 'replay'))
