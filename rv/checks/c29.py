"""C29 — chain-history search reports exactly the state changes. Reference: direct scan of the history.
The `get` callback is hooked: every probe is recorded (levels probed, probes outside [last, head])."""
import itertools

LEVEL = 'exploration'
SHARDS = {'quick': 1, 'thorough': 8}

KINDS = ['int', 'str', 'tuple2', 'dict', 'none_first', 'stamped']


def make_values(kind, n_changes):
    """n_changes+1 pairwise different values; a history never returns to an earlier one."""
    if kind == 'int':
        return list(range(100, 101 + n_changes))
    if kind == 'str':
        return ['v%d' % i for i in range(n_changes + 1)]
    if kind == 'tuple2':
        return [(i, 'x') for i in range(n_changes + 1)]
    if kind == 'dict':
        return [{'yay': i, 'nay': 0} for i in range(n_changes + 1)]
    if kind == 'none_first':
        return [None] + list(range(1, n_changes + 1))
    if kind == 'stamped':
        # every level reads a different object (value, level); equality is decided by the caller's `equals` on the value part
        return [('state-%d' % i,) for i in range(n_changes + 1)]
    raise KeyError(kind)


class Runaway(BaseException):
    pass


def judge(ctx, last, head, changes, step, kind):
    from pytezos.rpc import search as S
    changes = sorted(changes)
    vals = make_values(kind, len(changes))

    def value_at(level):
        v = vals[sum(1 for c in changes if c <= level)]
        return (v[0], level) if kind == 'stamped' else v

    probes = []

    budget = 200 * (head - last + 2) + 1000     # logical bound: a search over R levels has no reason to read more than a few R

    def get(level):
        probes.append(level)
        if len(probes) > budget:
            raise Runaway('more than %d reads for a range of %d levels' % (budget, head - last))
        return value_at(level)

    def equals(a, b):
        if kind == 'stamped':
            return (a[0] if a is not None else None) == (b[0] if b is not None else None)
        return a == b

    case = {'last': last, 'head': head, 'changes': changes, 'step': step, 'kind': kind}
    expected = [(c, value_at(c)) for c in changes]
    ctx.case((last, head, tuple(changes), step, kind), nontrivial=len(changes) >= 1)
    try:
        got = list(S.find_state_changes(head, last, get, equals, step=step))
    except Runaway as e:
        ctx.count('get_probes', len(probes))
        return ctx.violation('C29|search-does-not-terminate|' + kind, str(e), case)
    except RecursionError as e:
        ctx.count('get_probes', len(probes))
        return ctx.violation('C29|find_state_changes-raises|RecursionError|' + kind, repr(e)[:100], case)
    except Exception as e:
        ctx.count('get_probes', len(probes))
        return ctx.violation('C29|find_state_changes-raises|%s|%s' % (type(e).__name__, kind), repr(e), case)
    ctx.count('get_probes', len(probes))
    ctx.count('searches')
    if any(p < last or p > head for p in probes):
        return ctx.violation('C29|probe-outside-range', 'probes=%r' % probes, case)
    if len(ctx.samples) < ctx.max_samples and len(changes) > 1:
        ctx.samples.append({'case': case, 'reported': got, 'probes': len(probes)})
    if got != expected:
        gs, es = sorted(got, key=lambda x: x[0]), expected
        if gs == es:
            sig = 'C29|order-not-increasing'
        elif set(l for l, _ in got) < set(l for l, _ in expected):
            missing = min(set(l for l, _ in expected) - set(l for l, _ in got))
            lowest = min(probes) if probes else None
            sig = 'C29|change-missed|' + ('no-level-was-read' if lowest is None else 'below-lowest-sample' if missing <= lowest else 'inside')
        else:
            sig = 'C29|wrong-report'
        return ctx.violation(sig, 'expected=%r got=%r' % (expected, got), case)
    # single-change search: defined when a change exists in (last, head]
    if changes:
        probes.clear()
        try:
            lvl, val = S.find_state_change(head, last, get, equals, pred_value=value_at(last))
        except Runaway as e:
            return ctx.violation('C29|search-does-not-terminate|single|' + kind, str(e), case)
        except Exception as e:
            return ctx.violation('C29|find_state_change-raises|%s|%s' % (type(e).__name__, kind), repr(e), case)
        ctx.count('single_searches')
        if any(p < last or p > head for p in probes):
            return ctx.violation('C29|probe-outside-range', 'single probes=%r' % probes, case)
        # first level after the start whose value differs from the start value
        first = changes[0]
        if (lvl, val) != (first, value_at(first)):
            return ctx.violation('C29|single-change-wrong', 'expected=%r got=%r' % ((first, value_at(first)), (lvl, val)), case)


def run(ctx):
    maxr = ctx.pick(9, 13)
    ctx.rule = ('exhaustive: every range length 1..%d, every subset of change points in (last, head], every step '
                '1..length+2, value kinds rotating over %s; plus random ranges up to 400 levels and of 1000 / 1025 / 5000 levels with <=6 changes; '
                'non-trivial = at least one change; distinct by (range, change set, step, kind)' % (maxr, KINDS))
    ctx.exhaustive = True
    i = 0
    for R in range(1, maxr + 1):
        for last in ((0, 7) if R <= 4 else (3,)):
            head = last + R
            levels = list(range(last + 1, head + 1))
            for mask in range(1 << R):
                changes = [l for b, l in enumerate(levels) if mask >> b & 1]
                for step in range(1, R + 3):
                    i += 1
                    if not ctx.mine(i):
                        continue
                    judge(ctx, last, head, changes, step, KINDS[i % len(KINDS)] if R > 3 else KINDS[(i // 7) % len(KINDS)])
    rng = ctx.rng
    for _ in range(ctx.pick(1500, 40000) // ctx.nshards):
        last = rng.choice([0, 1, 5, 1000, 10 ** 6])
        R = rng.choice([1, 2, 59, 60, 61, 119, 120, 121, 127, 128, 129, 255, 256, 257, 1000, 1025, 5000, rng.randint(1, 400)])
        head = last + R
        k = rng.randint(0, min(6, R))
        changes = rng.sample(range(last + 1, head + 1), k)
        if rng.random() < 0.3 and R > 2:
            changes = sorted(set(changes) | {last + 1, head})
        step = rng.choice([1, 2, 7, 59, 60, 61, R, R + 1, max(1, R - 1), rng.randint(1, R + 5)])
        judge(ctx, last, head, changes, step, rng.choice(KINDS))
    ctx.require('get_probes', 100)


def replay(ctx, case):
    judge(ctx, case['last'], case['head'], case['changes'], case['step'], case['kind'])
