"""C23 — operation groups from any account kind are signed and hashed per protocol."""
from rv.checks.c07 import CNAME, gen_secret
from rv.gen import operations as GO
from rv.gen import typed as G
from rv.model import base58 as B
from rv.model import ecc as E
from rv.model import opbin as OB

LEVEL = 'exploration'
SHARDS = {'quick': 8, 'thorough': 16}
TIMEOUT = {'quick': 900, 'thorough': 7200}
PASS3 = ['reveal', 'transaction', 'origination', 'delegation', 'register_global_constant', 'transfer_ticket',
         'smart_rollup_add_messages', 'smart_rollup_execute_outbox_message']


def make_group(rng):
    r = rng.random()
    branch = B.encode(G.rbytes(rng, 32), 'B')
    if r < 0.7:
        g = GO.group(rng, kinds=PASS3)
        g['branch'] = branch
        return g, 'manager', OB.encode_group(g)
    if r < 0.8:
        g = {'branch': branch, 'contents': [GO.content(rng, 'activate_account')]}
        return g, 'anonymous', OB.encode_group(g)
    if r < 0.9:
        g = {'branch': branch, 'contents': [GO.content(rng, 'failing_noop')]}
        return g, 'failing_noop', OB.encode_group(g)
    level = rng.choice([0, 1, 2 ** 31 - 1, rng.getrandbits(24)])
    if rng.random() < 0.4:
        # the other consensus kind pytezos forges: an inlined endorsement wrapped with its slot
        ibranch, isig, slot = G.rbytes(rng, 32), G.rbytes(rng, 64), rng.choice([0, 1, 255, 256, 65535])
        inner = {'branch': B.encode(ibranch, 'B'), 'operations': {'kind': 'endorsement', 'level': level}, 'signature': B.encode(isig, 'sig')}
        g = {'branch': branch, 'contents': [{'kind': 'endorsement_with_slot', 'endorsement': inner, 'slot': slot}]}
        body = ibranch + b'\x00' + level.to_bytes(4, 'big') + isig
        return g, 'consensus', B.decode(branch, 'B') + b'\x0a' + len(body).to_bytes(4, 'big') + body + slot.to_bytes(2, 'big')
    g = {'branch': branch, 'contents': [{'kind': 'endorsement', 'level': level}]}
    return g, 'consensus', B.decode(branch, 'B') + b'\x00' + level.to_bytes(4, 'big')


def judge(ctx, rng, curve, secret, g, klass, forged, chain_raw):
    from pytezos.context.impl import ExecutionContext
    from pytezos.crypto.key import Key
    from pytezos.operation.group import OperationGroup
    cn = CNAME[curve]
    chain_id = B.encode(chain_raw, 'Net')
    case = {'curve': curve.decode(), 'secret': secret.hex(), 'group': g, 'class': klass, 'chain_id': chain_id, 'forged': forged.hex()}
    ctx.case((cn, secret, forged, chain_raw), nontrivial=True)
    ctx.count('class_' + klass)
    ctx.count('curve_' + cn)
    key = Key.from_secret_exponent(secret, curve)
    og = OperationGroup(context=ExecutionContext(key=key), contents=g['contents'], branch=g['branch'], chain_id=chain_id)
    try:
        signed = og.sign()
    except Exception as e:
        return ctx.violation('C23|sign-raises|%s|%s' % (cn, klass), repr(e)[:300], case)
    ctx.count('sign_calls')
    sig = signed.signature
    try:
        kinds = [k for k in B.KINDS if sig.startswith(k[0]) and len(sig) == k[1]]
        raw = B.decode_check(sig)[len(kinds[0][2]):]
    except Exception as e:
        return ctx.violation('C23|signature-not-base58|' + cn, '%r: %r' % (sig, e), case)
    if len(raw) != (96 if curve == b'BL' else 64):
        return ctx.violation('C23|signature-length|' + cn, '%d bytes' % len(raw), case)
    watermark = (b'\x02' + chain_raw) if klass == 'consensus' else b'\x03'
    try:
        own = bytes.fromhex(signed.forge())
    except Exception as e:
        return ctx.violation('C23|forge-raises|' + klass, repr(e)[:200], case)
    if own != forged:
        return ctx.violation('C23|forged-bytes-differ|' + klass, own.hex()[:200], case)
    msg = watermark + forged
    ctx.count('independent_verifications')
    if not E.verify(curve, key.public_point, raw, msg):
        wrong = (b'\x03' if klass == 'consensus' else b'\x02' + chain_raw) + forged
        hint = 'wrong-watermark' if E.verify(curve, key.public_point, raw, wrong) else ('no-watermark' if E.verify(curve, key.public_point, raw, forged) else 'other')
        return ctx.violation('C23|signature-does-not-verify|%s|%s|%s' % (cn, klass, hint), 'sig=%s' % sig, case)
    try:
        key.verify(sig, msg)
        ctx.count('own_verifications')
    except Exception as e:
        ctx.violation('C23|own-verify-rejects|' + cn, repr(e)[:200], case)
    want_hash = B.encode(E.blake2b_256(forged + raw), 'o')
    try:
        got_hash = signed.hash()
    except Exception as e:
        return ctx.violation('C23|hash-raises|' + cn, repr(e)[:200], case)
    ctx.count('hash_calls')
    if got_hash != want_hash:
        ctx.violation('C23|hash-differs|' + cn, '%s vs %s' % (got_hash, want_hash), case)
    # a group derived from an already signed and hashed one is signed and hashed on its own bytes
    if klass == 'manager' and curve != b'BL':
        extra = GO.content(rng, 'transaction')
        try:
            # half of the time the signed group is the one a user holds after injection: it also carries the hash the node returned
            parent = signed
            if rng.random() < 0.5:
                parent = OperationGroup(context=og.context, contents=g['contents'], branch=g['branch'], chain_id=chain_id, signature=sig, opg_hash=got_hash)
                ctx.count('derived_from_groups_carrying_opg_hash')
            derived = parent.operation(extra).sign()
            dsig = derived.signature
            dkinds = [k for k in B.KINDS if dsig.startswith(k[0]) and len(dsig) == k[1]]
            draw = B.decode_check(dsig)[len(dkinds[0][2]):]
            dforged = OB.encode_group({'branch': g['branch'], 'contents': g['contents'] + [extra]})
            ctx.count('derived_groups')
            if not E.verify(curve, key.public_point, draw, b'\x03' + dforged):
                ctx.violation('C23|derived-group-signature-does-not-verify|' + cn, 'sig=%s' % dsig, case)
            elif derived.hash() != B.encode(E.blake2b_256(dforged + draw), 'o'):
                ctx.violation('C23|derived-group-hash-differs|' + cn, '%s vs %s' % (derived.hash(), B.encode(E.blake2b_256(dforged + draw), 'o')), case)
        except Exception as e:
            ctx.violation('C23|derived-group-raises|' + type(e).__name__, repr(e)[:200], case)
    # the same signature in its curve-specific spelling (what Key.sign returns by default, what a detached signer hands back)
    if curve != b'BL':
        try:
            spelled = B.encode(raw, {b'ed': 'edsig', b'sp': 'spsig', b'p2': 'p2sig'}[curve])
            og2 = OperationGroup(context=og.context, contents=g['contents'], branch=g['branch'], chain_id=chain_id, signature=spelled)
            ctx.count('hashes_of_groups_with_curve_specific_signature_spelling')
            if og2.hash() != want_hash:
                ctx.violation('C23|hash-differs|curve-specific-signature-spelling|' + cn, '%s vs %s' % (og2.hash(), want_hash), case)
        except Exception as e:
            ctx.violation('C23|hash-raises|curve-specific-signature-spelling|' + cn, repr(e)[:200], case)
    # consensus groups built step by step: the chain id given to the first group is still there when the derived group is signed
    if klass == 'consensus':
        try:
            step = OperationGroup(context=og.context, branch=g['branch'], chain_id=chain_id).operation(g['contents'][0])
            for label, sg in (('derived-then-signed', step.sign()), ('signed-twice', step.sign().sign())):
                ssig = sg.signature
                skinds = [k for k in B.KINDS if ssig.startswith(k[0]) and len(ssig) == k[1]]
                sraw = B.decode_check(ssig)[len(skinds[0][2]):]
                ctx.count('consensus_groups_built_step_by_step')
                if not E.verify(curve, key.public_point, sraw, b'\x02' + chain_raw + forged):
                    ctx.violation('C23|signature-does-not-verify|%s|consensus|%s' % (cn, label), 'sig=%s' % ssig, case)
        except Exception as e:
            ctx.violation('C23|sign-raises|%s|consensus-built-step-by-step' % cn, repr(e)[:200], case)
    if len(ctx.samples) < 4:
        ctx.samples.append({'curve': cn, 'class': klass, 'signature': sig, 'hash': got_hash, 'contents': len(g['contents'])})


def bulk(ctx, rng, curve, n):
    """One key, one transfer, n successive counters: signatures whose r or s starts with zero bytes come up once in 256 each."""
    from pytezos.context.impl import ExecutionContext
    from pytezos.crypto.key import Key
    from pytezos.operation.group import OperationGroup
    secret = gen_secret(rng, curve)
    key = Key.from_secret_exponent(secret, curve)
    c = GO.content(rng, 'transaction', source=key.public_key_hash()) if 'source' in GO.content.__code__.co_varnames else GO.content(rng, 'transaction')
    branch = B.encode(G.rbytes(rng, 32), 'B')
    base = rng.getrandbits(24)
    for i in range(n):
        c = dict(c, counter=str(base + i))
        g = {'branch': branch, 'contents': [c]}
        forged = OB.encode_group(g)
        case = {'curve': curve.decode(), 'secret': secret.hex(), 'group': g, 'class': 'manager', 'chain_id': B.encode(bytes(4), 'Net'), 'forged': forged.hex()}
        ctx.count('bulk_sign_calls')
        ctx.case((CNAME[curve], secret, forged), nontrivial=True)
        try:
            signed = OperationGroup(context=ExecutionContext(key=key), contents=[c], branch=branch).sign()
            sig = signed.signature
            raw = B.decode_check(sig)[len([k for k in B.KINDS if sig.startswith(k[0]) and len(sig) == k[1]][0][2]):]
        except Exception as e:
            ctx.violation('C23|sign-raises|%s|bulk' % CNAME[curve], repr(e)[:200], case)
            continue
        short = raw[0] == 0 or raw[32] == 0
        if short:
            ctx.count('signatures_with_a_leading_zero_byte_in_r_or_s')
        if not E.verify(curve, key.public_point, raw, b'\x03' + forged):
            ctx.violation('C23|signature-does-not-verify|%s|manager|%s' % (CNAME[curve], 'short-r-or-s' if short else 'other'), 'sig=%s' % sig, case)
        elif short and signed.hash() != B.encode(E.blake2b_256(forged + raw), 'o'):
            ctx.violation('C23|hash-differs|' + CNAME[curve], signed.hash(), case)


def run(ctx):
    rng = ctx.rng
    n = ctx.pick(96, 4000) // ctx.nshards
    nbls = max(1, ctx.pick(8, 200) // ctx.nshards)
    ctx.rule = ('groups of the C06 generator (manager batches, activate_account, failing_noop) and consensus (endorsement) x keys '
                'of four curves x chain ids; sign() must succeed, signature verifies with the independent verifier over '
                '0x03||forged (0x02||chain_id||forged for consensus), hash() == base58 o(Blake2b-256(forged||raw signature)); '
                'distinct by (key, forged bytes, chain id)')
    ctx.assumptions.append('BLS reference uses py_ecc low-level primitives')
    for i in range(n + nbls):
        curve = [b'ed', b'sp', b'p2'][i % 3] if i < n else b'BL'
        g, klass, forged = make_group(rng)
        if i % 9 == 8:
            level = rng.getrandbits(20)
            g = {'branch': g['branch'], 'contents': [{'kind': 'endorsement', 'level': level}]}
            klass, forged = 'consensus', B.decode(g['branch'], 'B') + b'\x00' + level.to_bytes(4, 'big')
        chain_raw = rng.choice([b'\x00' * 4, b'\xff' * 4, G.rbytes(rng, 4)])
        judge(ctx, rng, curve, gen_secret(rng, curve), g, klass, forged, chain_raw)
        if curve == b'BL' or i % 5 == 0:
            # the same bytes signed by a second account of the same kind, in the same process (co-signed / multisig use)
            ctx.count('groups_signed_by_a_second_key')
            judge(ctx, rng, curve, gen_secret(rng, curve), g, klass, forged, chain_raw)
    # large groups: forged sizes on both sides of 2**13, 2**14, 2**15 bytes (one big parameter; a batch of hundreds of contents)
    if ctx.mine(0):
        for k, size in enumerate([4000, 8191, 8200, 16380, 16400, 20000, 30000]):
            c = GO.content(rng, 'transaction')
            c['parameters'] = {'entrypoint': 'default', 'value': {'bytes': G.rbytes(rng, size).hex()}}
            g = {'branch': B.encode(G.rbytes(rng, 32), 'B'), 'contents': [c]}
            curve = [b'ed', b'sp', b'p2', b'BL'][k % 4]
            ctx.count('large_groups')
            judge(ctx, rng, curve, gen_secret(rng, curve), g, 'manager', OB.encode_group(g), G.rbytes(rng, 4))
        for k, n_ in enumerate([100, 250, 300]):
            src = GO.pkh(rng)
            g = {'branch': B.encode(G.rbytes(rng, 32), 'B'), 'contents': [dict(GO.content(rng, 'transaction', source=src), counter=str(1000 + j)) for j in range(n_)]}
            curve = [b'p2', b'ed', b'sp'][k % 3]
            ctx.count('large_groups')
            judge(ctx, rng, curve, gen_secret(rng, curve), g, 'manager', OB.encode_group(g), G.rbytes(rng, 4))
    for curve in (b'p2', b'sp'):
        bulk(ctx, rng, curve, ctx.pick(2400, 40000) // ctx.nshards)
    ctx.require('bulk_sign_calls', 100)
    for c in CNAME.values():
        ctx.require('curve_' + c, 1)
    ctx.require('class_consensus', 1)
    ctx.require('sign_calls', 10)
    ctx.require('hash_calls' if not ctx.violations else 'sign_calls', 5)


def replay(ctx, case):
    judge(ctx, ctx.rng, case['curve'].encode(), bytes.fromhex(case['secret']), case['group'], case['class'],
          bytes.fromhex(case['forged']), B.decode(case['chain_id'], 'Net'))
