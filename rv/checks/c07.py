"""C07 — signing and verification are correct for every key kind.
Monitors on Key.sign / Key.verify / CHECK_SIGNATURE against an independent verifier (OpenSSL; py_ecc low level for BLS)."""
from rv.hooks import drive as D
from rv.model import base58 as B
from rv.model import ecc as E

LEVEL = 'exploration'
SHARDS = {'quick': 8, 'thorough': 16}
TIMEOUT = {'quick': 900, 'thorough': 7200}
CNAME = {b'ed': 'ed25519', b'sp': 'secp256k1', b'p2': 'p256', b'BL': 'bls'}


def gen_secret(rng, curve):
    r = rng.random()
    if curve == b'ed':
        return bytes(rng.getrandbits(8) for _ in range(32))
    if curve == b'BL':
        v = rng.choice([1, 2, E.BLS_R - 1]) if r < 0.3 else rng.randrange(1, E.BLS_R)
        return v.to_bytes(32, 'little')
    n = E.CURVES[curve][1]
    v = rng.choice([1, 2, n - 1, n - 2, 2 ** 255, 2 ** 128]) if r < 0.3 else rng.randrange(1, n)
    return v.to_bytes(32, 'big')


def messages(rng):
    """(message as given to the API, the bytes it denotes)"""
    raw = bytes(rng.getrandbits(8) for _ in range(rng.choice([1, 2, 31, 32, 33, 64, 200, 1000])))
    yield raw, raw
    yield raw.hex(), raw                       # hexadecimal notation
    yield '0x' + raw.hex(), raw
    yield raw.hex().upper(), raw               # upper- and mixed-case hexadecimal notation denote the same bytes
    yield '0x' + ''.join(c.upper() if i % 3 == 0 else c for i, c in enumerate(raw.hex())), raw
    yield b'', b''
    s = rng.choice(['hello world', 'not hex!', 'zz', 'Tezos Signed Message: x', 'abc'])   # odd length / non-hex: ascii
    yield s, s.encode('ascii')
    yield b'\x03' + raw, b'\x03' + raw


def sig_alterations(rng, sig, curve):
    n = len(sig)
    for pos in sorted({0, 1, 31, 32, 33, n - 1, rng.randrange(n), rng.randrange(n)}):
        b = bytearray(sig)
        b[pos] ^= 1 << rng.randrange(8)
        yield 'bitflip', bytes(b)
    for pos in (rng.randrange(n), rng.randrange(n)):
        b = bytearray(sig)
        b[pos] = (b[pos] + rng.randrange(1, 256)) % 256
        yield 'bytesubst', bytes(b)
    yield 'zero', b'\x00' * n
    yield 'ones', b'\xff' * n
    if curve in E.CURVES:
        nn = E.CURVES[curve][1]
        yield 'r=0', b'\x00' * 32 + sig[32:]
        yield 's=0', sig[:32] + b'\x00' * 32
        yield 'r=n', nn.to_bytes(32, 'big') + sig[32:]
        yield 's=n', sig[:32] + nn.to_bytes(32, 'big')
        yield 'swapped-halves', sig[32:] + sig[:32]
        yield 's-negated', sig[:32] + ((nn - int.from_bytes(sig[32:], 'big')) % nn).to_bytes(32, 'big')     # the other root: (r, n - s)


def pt_verify(key, sig_b58, msg):
    try:
        r = key.verify(sig_b58, msg)
        return ('accept', r)
    except ValueError as e:
        return ('reject', e)
    except Exception as e:
        return ('reject-other', e)


def check_signature(ctx, pk_b58, sig_b58, msg_bytes):
    it = D.new_interpreter()
    res = it.execute([{'prim': 'PUSH', 'args': [{'prim': 'bytes'}, {'bytes': msg_bytes.hex()}]},
                      {'prim': 'PUSH', 'args': [{'prim': 'signature'}, {'string': sig_b58}]},
                      {'prim': 'PUSH', 'args': [{'prim': 'key'}, {'string': pk_b58}]},
                      {'prim': 'CHECK_SIGNATURE'}])
    ctx.count('CHECK_SIGNATURE_runs')
    if res.error is not None:
        return ('error', res.error)
    return ('ok', bool(it.stack.items[0].value))


def judge_key(ctx, rng, curve, secret, light=False):
    from pytezos.crypto.key import Key
    cn = CNAME[curve]
    base = {'curve': curve.decode(), 'secret': secret.hex()}
    try:
        key = Key.from_secret_exponent(secret, curve)
    except Exception as e:
        return ctx.violation('C07|key-construction|' + cn, repr(e)[:200], base)
    pub = key.public_point
    pubkey = Key.from_encoded_key(key.public_key())
    other = Key.from_secret_exponent(gen_secret(rng, curve), curve)
    while other.public_point == pub:        # edge secrets are drawn from a tiny pool: make sure it is a different key
        other = Key.from_secret_exponent(gen_secret(rng, curve), curve)
    prefix = curve.decode() + 'sig'
    msgs = list(messages(rng))
    if light:
        msgs = [msgs[0], msgs[1], msgs[3], msgs[6]]
    for mi, (m_api, m_bytes) in enumerate(msgs):
        mkind = type(m_api).__name__ + ('-hex' if isinstance(m_api, str) and m_bytes.hex() in m_api.lower() and m_bytes else '')
        for generic in (False, True):
            case = dict(base, message=m_api.hex() if isinstance(m_api, bytes) else m_api, message_is_bytes=isinstance(m_api, bytes), generic=generic)
            ctx.count('sign_calls')
            ctx.case((cn, secret, repr(m_api), generic), nontrivial=True)
            try:
                sig = key.sign(m_api, generic=generic)
            except Exception as e:
                ctx.violation('C07|sign-raises|%s|%s' % (cn, 'generic' if generic else 'specific'), repr(e)[:300], case)
                continue
            try:
                raw = B.decode_check(sig)[len([k for k in B.KINDS if sig.startswith(k[0]) and len(sig) == k[1]][0][2]):]
            except Exception as e:
                ctx.violation('C07|signature-not-base58|' + cn, '%s: %r' % (sig, e), case)
                continue
            # own verification, with the secret-key object and with a public-only key object
            for kobj, kn in ((key, 'secret-key-object'), (pubkey, 'public-key-object')):
                st, r = pt_verify(kobj, sig, m_api)
                ctx.count('verify_calls')
                if st != 'accept':
                    ctx.violation('C07|own-verify-rejects-fresh-signature|%s|%s' % (cn, 'generic' if generic else 'specific'), '%s: %r' % (kn, r), case)
            # independent verification over Blake2b-256(message) (BLS: the message itself)
            ctx.count('independent_verifications')
            if not E.verify(curve, pub, raw, m_bytes):
                ctx.violation('C07|independent-verifier-rejects|%s|%s' % (cn, mkind), 'sig=%s over %d message bytes' % (sig, len(m_bytes)), case)
                continue
            if generic and curve != b'BL' and not (light and mi):
                # the generic spelling `sig...` of a valid signature is as valid as the curve-specific one
                cs = check_signature(ctx, key.public_key(), sig, m_bytes)
                ctx.count('CHECK_SIGNATURE_on_generic_spelling')
                if cs != ('ok', True):
                    ctx.violation('C07|CHECK_SIGNATURE-rejects-valid|generic-spelling|' + cn, repr(cs)[:300], case)
            if generic or (light and mi):
                continue
            # CHECK_SIGNATURE on the valid triple
            cs = check_signature(ctx, key.public_key(), sig, m_bytes)
            if cs != ('ok', True):
                ctx.violation('C07|CHECK_SIGNATURE-rejects-valid|' + cn, repr(cs)[:300], case)
            # altered message
            alts = []
            if m_bytes:
                b = bytearray(m_bytes)
                b[rng.randrange(len(b))] ^= 1 << rng.randrange(8)
                alts.append(('altered-message', sig, bytes(b)))
            alts.append(('extended-message', sig, m_bytes + b'\x00'))
            if m_bytes:
                alts.append(('truncated-message', sig, m_bytes[:-1]))
            for kind, araw in (list(sig_alterations(rng, raw, curve)) if not (curve == b'BL' and (light or mi)) else list(sig_alterations(rng, raw, curve))[:2]):
                try:
                    alts.append(('altered-signature:' + kind, B.encode(araw, prefix), m_bytes))
                except Exception:
                    pass
            for kind, asig, amsg in alts:
                araw = B.decode(asig, prefix)
                ref = E.verify(curve, pub, araw, amsg)
                ctx.count('alterations')
                ctx.count('alt_' + kind.split(':')[0])
                ctx.case((cn, secret, kind, asig, amsg), nontrivial=True)
                acase = dict(base, signature=asig, message=amsg.hex(), message_is_bytes=True, alteration=kind)
                if ref:
                    ctx.count('alteration_still_valid_per_reference')   # e.g. ECDSA malleability: no demand
                    continue
                st, r = pt_verify(key, asig, amsg)
                if st == 'accept':
                    ctx.violation('C07|verify-accepts-%s|%s' % (kind, cn), 'sig=%s' % asig, acase)
                elif st == 'reject-other':
                    ctx.count('verify_rejects_with_non_ValueError')
                cs = check_signature(ctx, key.public_key(), asig, amsg)
                if cs[0] == 'error':
                    ctx.violation('C07|CHECK_SIGNATURE-crashes-instead-of-False|%s|%s' % (cn, kind), repr(cs[1])[:300], acase)
                elif cs[1] is not False:
                    ctx.violation('C07|CHECK_SIGNATURE-accepts-%s|%s' % (kind, cn), 'sig=%s' % asig, acase)
            # different key
            st, r = pt_verify(other, sig, m_api)
            ctx.count('alterations')
            if st == 'accept':
                ctx.violation('C07|verify-accepts-under-different-key|' + cn, sig, case)
            cs = check_signature(ctx, other.public_key(), sig, m_bytes)
            if cs[0] == 'error':
                ctx.violation('C07|CHECK_SIGNATURE-crashes-instead-of-False|%s|different-key' % cn, repr(cs[1])[:300], case)
            elif cs[1] is not False:
                ctx.violation('C07|CHECK_SIGNATURE-accepts-under-different-key|' + cn, sig, case)
    # altered public key (single bit / single byte): never accepted; where the altered bytes are still a point of the curve the
    # verdict is a plain rejection (False), where they are not, refusing the key itself is as good
    from pytezos.crypto.key import Key as K_
    m0 = b'altered key'
    try:
        sig0 = key.sign(m0)
    except Exception:
        sig0 = None
    kprefix = {b'ed': 'edpk', b'sp': 'sppk', b'p2': 'p2pk', b'BL': 'BLpk'}[curve]
    positions = sorted({0, 1, len(pub) - 1, rng.randrange(len(pub)), rng.randrange(len(pub))}) if not light else [0, len(pub) - 1]
    for pos in positions if sig0 else []:
        for how in ('bit', 'byte'):
            b = bytearray(pub)
            b[pos] = b[pos] ^ (1 << rng.randrange(8)) if how == 'bit' else (b[pos] + rng.randrange(1, 256)) % 256
            apub = bytes(b)
            valid = E.valid_point(curve, apub)
            kcase = dict(base, message=m0.hex(), message_is_bytes=True, altered_public_key=apub.hex(), alteration='altered-key:%s@%d' % (how, pos))
            ctx.count('alterations')
            ctx.count('alt_altered-key')
            ctx.count('altered_keys_%s' % {True: 'on_the_curve', False: 'not_on_the_curve', None: 'validity_unknown'}[valid])
            ctx.case((cn, secret, 'altered-key', apub), nontrivial=True)
            ab58 = B.encode(apub, kprefix)
            try:
                akey = K_.from_encoded_key(ab58)
            except Exception:
                ctx.count('altered_keys_refused_at_import')
                akey = None
            if akey is not None:
                st, r = pt_verify(akey, sig0, m0)
                if st == 'accept':
                    ctx.violation('C07|verify-accepts-under-altered-key|' + cn, 'key=%s sig=%s' % (ab58, sig0), kcase)
            cs = check_signature(ctx, ab58, sig0, m0)
            if cs == ('ok', True):
                ctx.violation('C07|CHECK_SIGNATURE-accepts-under-altered-key|' + cn, 'key=%s' % ab58, kcase)
            elif cs[0] == 'error' and valid:
                ctx.violation('C07|CHECK_SIGNATURE-crashes-instead-of-False|%s|altered-key-still-on-the-curve' % cn, repr(cs[1])[:300], kcase)
    if len(ctx.samples) < 4:
        ctx.samples.append({'curve': cn, 'public_key': key.public_key(), 'messages': len(msgs)})


def cross_curve(ctx, rng):
    """A generic signature of one curve must not verify under a key of another curve."""
    from pytezos.crypto.key import Key
    keys = {c: Key.from_secret_exponent(gen_secret(rng, c), c) for c in (b'ed', b'sp', b'p2')}
    msg = b'cross-curve'
    for c1, k1 in keys.items():
      for generic in (True, False):
        sig = k1.sign(msg, generic=generic)
        for c2, k2 in keys.items():
            if c1 == c2:
                continue
            ctx.count('alterations')
            ctx.case(('cross', c1, c2, sig), nontrivial=True)
            st, r = pt_verify(k2, sig, msg)
            if st == 'accept':
                ctx.violation('C07|verify-accepts-under-different-key|cross-curve', '%s sig under %s key' % (c1, c2), {'curve': c1.decode(), 'other': c2.decode()})
            cs = check_signature(ctx, k2.public_key(), sig, msg)
            if cs[0] == 'error':
                ctx.violation('C07|CHECK_SIGNATURE-crashes-instead-of-False|cross-curve|%s-sig-%s-key' % (CNAME[c1], CNAME[c2]), repr(cs[1])[:300], {'curve': c1.decode(), 'other': c2.decode()})
            elif cs[1]:
                ctx.violation('C07|CHECK_SIGNATURE-accepts-under-different-key|cross-curve', '', {'curve': c1.decode(), 'other': c2.decode()})


def bulk_sign(ctx, rng, curve, n):
    """Many short messages under one key: signatures whose r or s has leading zero bytes occur once in 256 each."""
    from pytezos.crypto.key import Key
    secret = gen_secret(rng, curve)
    key = Key.from_secret_exponent(secret, curve)
    pub = key.public_point
    base = rng.getrandbits(32)
    for i in range(n):
        m = b'message %d' % (base + i)
        ctx.count('bulk_sign_calls')
        ctx.case((CNAME[curve], secret, m), nontrivial=True)
        case = {'curve': curve.decode(), 'secret': secret.hex(), 'message': m.hex(), 'message_is_bytes': True, 'generic': False}
        try:
            sig = key.sign(m)
            raw = B.decode_check(sig)[len([k for k in B.KINDS if sig.startswith(k[0]) and len(sig) == k[1]][0][2]):]
        except Exception as e:
            ctx.violation('C07|sign-raises|%s|bulk' % CNAME[curve], repr(e)[:300], case)
            continue
        short = len(raw) == 64 and (raw[0] == 0 or raw[32] == 0)
        if short:
            ctx.count('signatures_with_a_leading_zero_byte_in_r_or_s')
        if not E.verify(curve, pub, raw, m):
            ctx.violation('C07|independent-verifier-rejects|%s|%s' % (CNAME[curve], 'short-r-or-s' if short else 'bytes'), 'sig=%s' % sig, case)


def run(ctx):
    rng = ctx.rng
    D.patch_parser_passthrough()
    nkeys = ctx.pick(56, 2000) // ctx.nshards
    nbls = max(1, ctx.pick(8, 160) // ctx.nshards)
    ctx.rule = ('random and edge secret keys (1, n-1, ...) of ed25519/secp256k1/p256 (%d) and BLS (%d); messages as bytes, hex '
                'strings, 0x-hex, empty, non-hex strings; curve-specific and generic signing; own verify (secret and public key '
                'object), independent verifier (OpenSSL / py_ecc low level), CHECK_SIGNATURE; alterations: message bit flip / '
                'extension / truncation, signature bit flips and byte substitutions at stratified positions, zero/ones, r|s in '
                '{0,n}, swapped halves, different key, cross-curve; distinct by (key, message, form | alteration)'
                % (ctx.pick(56, 2000), ctx.pick(8, 160)))
    ctx.assumptions.append('BLS reference uses py_ecc low-level primitives (same library as pytezos, different layer)')
    for i in range(nkeys):
        curve = [b'ed', b'sp', b'p2'][i % 3]
        judge_key(ctx, rng, curve, gen_secret(rng, curve))
    for i in range(nbls):
        judge_key(ctx, rng, b'BL', gen_secret(rng, b'BL'), light=True)
    cross_curve(ctx, rng)
    for curve in (b'p2', b'sp', b'ed'):
        bulk_sign(ctx, rng, curve, ctx.pick(2400, 60000) // ctx.nshards if curve != b'ed' else 40)
    ctx.require('bulk_sign_calls', 100)
    ctx.require('sign_calls', 20)
    ctx.require('independent_verifications' if not ctx.violations else 'sign_calls', 10)
    ctx.require('alterations', 20)
    ctx.require('CHECK_SIGNATURE_runs', 10)


def replay(ctx, case):
    D.patch_parser_passthrough()
    if 'secret' in case:
        judge_key(ctx, ctx.rng, case['curve'].encode(), bytes.fromhex(case['secret']), light=case['curve'] == 'BL')
    else:
        cross_curve(ctx, ctx.rng)
