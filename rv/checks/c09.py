"""C09 — Base58Check typed encodings are unambiguous and invertible.
Postcondition monitor on base58_encode/base58_decode/is_* against an own base58check and a golden prefix table."""
from rv.model import base58 as B

LEVEL = 'exploration'
SHARDS = {'quick': 1, 'thorough': 8}


def pt_decode(s):
    from pytezos.crypto.encoding import base58_decode
    try:
        return 'accept', base58_decode(s.encode() if isinstance(s, str) else s)
    except Exception as e:
        return 'reject', e


def payloads(rng, n, count):
    yield b'\x00' * n
    yield b'\xff' * n
    yield b'\x00' * (n - 1) + b'\x01'
    yield b'\x80' + b'\x00' * (n - 1)
    for _ in range(count):
        r = rng.random()
        if r < 0.1:
            yield bytes([rng.getrandbits(8)]) + b'\x00' * (n - 1)
        elif r < 0.2:
            yield b'\x00' * rng.randint(1, n - 1) + bytes(rng.getrandbits(8) for _ in range(1))[:1].ljust(1, b'\0') * 1 + bytes(rng.getrandbits(8) for _ in range(n))[: n - 1 - 0][: n - 2] if n > 2 else bytes(rng.getrandbits(8) for _ in range(n))
        else:
            yield bytes(rng.getrandbits(8) for _ in range(n))


def run(ctx):
    from pytezos.crypto import encoding as E
    rng = ctx.rng
    per_kind = ctx.pick(150, 8000) // ctx.nshards
    ctx.rule = ('43 kinds x (all-zero, all-ones, boundary and random payloads): encode/decode postconditions; corrupted '
                'strings: checksum byte, one character substituted, truncated, extended, foreign binary prefix under the '
                'same human prefix and length (constructed by searching neighbouring binary prefixes), other kind\'s '
                'string; distinct by string; non-trivial = corrupted string or payload not all-equal bytes')
    live = {(e[0].decode(), e[1], bytes(e[2]), e[3]) for e in E.base58_encodings}
    gold = {(k[0], k[1], k[2], k[3]) for k in B.KINDS}
    ctx.extra['live_table_rows'] = len(live)
    if live != gold:
        for row in sorted(live ^ gold, key=repr)[:5]:
            ctx.violation('C09|table-differs-from-golden|' + row[0], 'row %r not in both tables' % (row,), {'row': repr(row)})
    for prefix, enclen, binp, n, kind in B.KINDS:
        for i, pl in enumerate(payloads(rng, n, per_kind)):
            if len(pl) != n:
                pl = (pl + b'\x00' * n)[:n]
            case = {'prefix': prefix, 'payload': pl.hex()}
            ctx.count('encodes')
            try:
                s = E.base58_encode(pl, prefix.encode()).decode()
            except Exception as ex:
                ctx.violation('C09|encode-raises|' + prefix, repr(ex), case)
                continue
            ctx.case(s, nontrivial=len(set(pl)) > 1, sample={'kind': kind, 'payload': pl.hex(), 'encoded': s} if i == 5 else None)
            if not s.startswith(prefix) or len(s) != enclen:
                ctx.violation('C09|prefix-or-length|' + prefix, 'encoded %s (len %d), documented prefix %s len %d' % (s, len(s), prefix, enclen), case)
                continue
            if s != B.encode(pl, prefix):
                ctx.violation('C09|encoding-differs|' + prefix, 'pytezos=%s model=%s' % (s, B.encode(pl, prefix)), case)
                continue
            st, back = pt_decode(s)
            ctx.count('decodes')
            if st != 'accept' or back != pl:
                ctx.violation('C09|roundtrip|' + prefix, '%s -> %r' % (s, back), case)
                continue
            if len(B.decode_kinds(s)) != 1:
                ctx.violation('C09|model-ambiguous|' + prefix, s, case)
            if i < (6 if ctx.quick else 40) or rng.random() < 0.1:
                corrupt(ctx, rng, s, prefix, enclen, binp, n)
    # is_* helpers agree with decode acceptance on a sample
    helpers(ctx, rng, E)
    address_helpers(ctx, rng, E)
    ctx.require('encodes', 43 * 4)
    ctx.require('decodes', 43 * 4)
    ctx.require('corruptions', 200)
    ctx.require('foreign_prefix_strings', 10)


def judge_corrupt(ctx, s, klass, origin):
    st, got = pt_decode(s)
    ctx.count('corruptions')
    ctx.count('corrupt_' + klass)
    ctx.case(s, nontrivial=True)
    valid = B.decode_kinds(s)
    case = {'string': s, 'class': klass, 'origin': origin}
    if not valid:
        if st == 'accept':
            ctx.violation('C09|accepts-invalid|' + klass, '%s decodes to %s' % (s, got.hex() if isinstance(got, bytes) else got), case)
    elif len(valid) == 1:
        k = valid[0]
        if st != 'accept':
            ctx.violation('C09|rejects-valid|' + klass, '%s: %r' % (s, got), case)
        elif got != B.decode_check(s)[len(k[2]):]:
            ctx.violation('C09|decodes-wrong|' + klass, s, case)
    else:
        ctx.violation('C09|two-kinds', '%s valid for %r' % (s, [k[4] for k in valid]), case)


def corrupt(ctx, rng, s, prefix, enclen, binp, n):
    A = B.ALPHABET
    # one character substituted (every class of position: prefix, middle, tail)
    for pos in {0, len(prefix) - 1, len(prefix), len(s) // 2, len(s) - 5, len(s) - 1, rng.randrange(len(s))}:
        c = rng.choice([x for x in A if x != s[pos]])
        judge_corrupt(ctx, s[:pos] + c + s[pos + 1:], 'char-subst', s)
    judge_corrupt(ctx, s[:-1], 'truncated', s)
    judge_corrupt(ctx, s[1:], 'truncated-head', s)
    judge_corrupt(ctx, s + rng.choice(A), 'extended', s)
    judge_corrupt(ctx, s[:len(prefix)] + rng.choice(A) + s[len(prefix):], 'inserted', s)
    for ws in (' ', '\n', '\t', '\r\n', '  '):
        judge_corrupt(ctx, s + ws, 'trailing-whitespace', s)
    judge_corrupt(ctx, ' ' + s, 'leading-whitespace', s)
    judge_corrupt(ctx, s[:-1] + '0', 'bad-alphabet', s)
    judge_corrupt(ctx, s[:-2] + 'Il', 'bad-alphabet', s)
    # swap two adjacent characters
    p = rng.randrange(len(s) - 1)
    if s[p] != s[p + 1]:
        judge_corrupt(ctx, s[:p] + s[p + 1] + s[p] + s[p + 2:], 'transposed', s)
    # foreign binary prefix with a *valid checksum* under the same human prefix and length
    payload = bytes(rng.getrandbits(8) for _ in range(n))
    for delta in (1, -1, 2, -2, 3, 256, -256):
        v = int.from_bytes(binp, 'big') + delta
        if v < 0 or v >= 256 ** len(binp):
            continue
        fp = v.to_bytes(len(binp), 'big')
        for pl in (payload, b'\x00' * n, b'\xff' * n):
            f = B.encode_check(pl, fp)
            if f.startswith(prefix) and len(f) == enclen and not any(k[2] == fp and k[3] == n for k in B.KINDS):
                ctx.count('foreign_prefix_strings')
                judge_corrupt(ctx, f, 'foreign-binary-prefix', s)
    # valid checksum but payload one byte shorter / longer with the right binary prefix
    for pl in (payload[:-1], payload + b'\x00'):
        f = B.encode_check(pl, binp)
        if f.startswith(prefix) and len(f) == enclen:
            ctx.count('wrong_payload_len_same_string_len')
        judge_corrupt(ctx, f, 'wrong-payload-length', s)
    # no string is valid for two kinds: present this kind's string relabelled with another kind's human prefix
    other = rng.choice(B.KINDS)
    if other[0] != prefix:
        judge_corrupt(ctx, other[0] + s[len(prefix):], 'relabelled', s)


def helpers(ctx, rng, E):
    table = [('is_pkh', ['tz1', 'tz2', 'tz3', 'tz4']), ('is_kt', ['KT1']), ('is_sr', ['sr1']), ('is_bh', ['B']),
             ('is_ogh', ['o']), ('is_chain_id', ['Net']), ('is_sig', ['edsig', 'spsig', 'p2sig', 'BLsig', 'sig']),
             ('is_l2_pkh', ['txr1'])]
    strings = []
    for prefix, enclen, binp, n, kind in B.KINDS:
        pl = bytes(rng.getrandbits(8) for _ in range(n))
        s = B.encode_check(pl, binp)
        strings.append((s, prefix))
        strings.append((s[:-1] + ('2' if s[-1] != '2' else '3'), None))
        # the text of a valid encoding written in hexadecimal is not an encoding
        strings.append((s.encode().hex(), None))
        strings.append(('0x' + s.encode().hex().upper(), None))
    for name, prefixes in table:
        fn = getattr(E, name, None)
        if fn is None:
            ctx.inconc('helper %s missing' % name)
            continue
        for s, pfx in strings:
            want = pfx in prefixes and len(B.decode_kinds(s)) == 1
            got = bool(fn(s))
            ctx.count('helper_calls')
            if got != want:
                ctx.violation('C09|helper|' + name, '%s(%s)=%r expected %r' % (name, s, got, want), {'string': s, 'class': 'helper:' + name, 'origin': None})


def address_helpers(ctx, rng, E):
    """Predicates that accept an address with an optional %entrypoint: the part before '%' must be a valid string of one of the
    kinds, nothing may follow it except '%name'."""
    table = [('is_address', ['tz1', 'tz2', 'tz3', 'tz4', 'KT1', 'sr1']), ('is_txr_address', ['txr1'])]
    for prefix, enclen, binp, n, kind in B.KINDS:
        if n != 20:
            continue
        for _ in range(3):
            pl = bytes(rng.getrandbits(8) for _ in range(n))
            s = B.encode_check(pl, binp)
            variants = [(s, True), (s + '%transfer', True), (s + '%', True), (s + '1', False), (s + 'abc', False), (s + s, False), (s[:-1], False),
                        (s + '1%ep', False), (s[:-1] + ('2' if s[-1] != '2' else '3') + '%ep', False), ('%' + s, False)]
            for name, prefixes in table:
                fn = getattr(E, name, None)
                if fn is None:
                    continue
                for v, ok in variants:
                    for form in (v, v.encode()):
                        want = ok and prefix in prefixes
                        try:
                            got = bool(fn(form))
                        except Exception as e:
                            got = e
                        ctx.count('address_helper_calls')
                        ctx.case((name, v, type(form).__name__), nontrivial=True)
                        if got != want:
                            ctx.violation('C09|helper|%s|%s' % (name, 'trailing-characters' if v.startswith(s) and not ok else 'other'),
                                          '%s(%r)=%r expected %r' % (name, form, got, want), {'string': v, 'class': 'address-helper:' + name, 'origin': None})


def replay(ctx, case):
    if str(case.get('class', '')).startswith('address-helper:'):
        from pytezos.crypto import encoding as E
        return address_helpers(ctx, ctx.rng, E)
    if 'string' in case:
        judge_corrupt(ctx, case['string'], case.get('class', 'replay'), case.get('origin'))
    else:
        from pytezos.crypto import encoding as E
        pl = bytes.fromhex(case['payload'])
        s = E.base58_encode(pl, case['prefix'].encode()).decode()
        if s != B.encode(pl, case['prefix']) or pt_decode(s) != ('accept', pl):
            ctx.violation('C09|roundtrip|' + case['prefix'], s, case)
