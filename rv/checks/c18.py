"""C18 — Michelson text formatting and parsing are inverse (both layouts)."""
from rv.gen import michelson_shaped as GS
from rv.model import micheline_bin as MB

LEVEL = 'exploration'
SHARDS = {'quick': 4, 'thorough': 16}
_parser = {}


def parser():
    if 'p' not in _parser:
        from pytezos.michelson.parse import MichelsonParser
        _parser['p'] = MichelsonParser()
    return _parser['p']


def first_diff(a, b, path='$'):
    """Path and primitive context of the first structural difference between two normal forms."""
    if a == b:
        return None
    if type(a) != type(b) or not isinstance(a, tuple) or a[0] != b[0]:
        return path, a, b
    if a[0] == 'seq':
        if len(a[1]) != len(b[1]):
            return path + '.len', a, b
        for i, (x, y) in enumerate(zip(a[1], b[1])):
            d = first_diff(x, y, '%s[%d]' % (path, i))
            if d:
                return d
    if a[0] == 'prim':
        if a[1] != b[1]:
            return path + '.prim', a, b
        if a[3] != b[3]:
            return path + '.annots(' + a[1] + ')', a, b
        if len(a[2]) != len(b[2]):
            return path + '.nargs(' + a[1] + ')', a, b
        for i, (x, y) in enumerate(zip(a[2], b[2])):
            d = first_diff(x, y, '%s/%s.%d' % (path, a[1], i))
            if d:
                return d
    return path, a, b


def culprit(e):
    """Primitive names occurring in argument position with args or annots (candidates for missing parentheses)."""
    out = set()

    def go(x, argpos):
        if isinstance(x, list):
            for y in x:
                go(y, False)
        elif isinstance(x, dict) and 'prim' in x:
            if argpos and (x.get('args') or x.get('annots')):
                out.add(x['prim'] + ('+annots' if x.get('annots') and not x.get('args') else ''))
            for a in x.get('args', []):
                go(a, True)
    go(e, False)
    return out


def judge(ctx, kind, e):
    from pytezos.michelson.format import micheline_to_michelson
    from pytezos.michelson.parse import michelson_to_micheline
    want = MB.nf(e)
    for inline in (True, False):
        ctx.count('roundtrips')
        ctx.case((repr(want), inline), nontrivial=GS_size(e) >= 3)
        case = {'kind': kind, 'expr': e, 'inline': inline}
        try:
            text = micheline_to_michelson(e, inline=inline)
        except Exception as ex:
            ctx.violation('C18|format-raises|%s|%s' % (kind, type(ex).__name__), repr(ex)[:200], case)
            continue
        ctx.count('multi_line_outputs' if '\n' in text else 'single_line_outputs')
        try:
            back = michelson_to_micheline(text, parser=parser())
        except Exception as ex:
            cs = sorted(culprit(e))
            ctx.violation('C18|parse-raises|%s|%s' % (kind, type(ex).__name__), '%r text=%r candidates=%r' % (ex, text[:300], cs[:6]), case)
            continue
        try:
            got = MB.nf(back)
        except Exception as ex:
            ctx.violation('C18|parse-result-not-micheline|' + kind, repr(back)[:200], case)
            continue
        if got == want and ctx.evaluations % 3 == 0:
            # parse results belong to the caller: editing one must not change what the next parse of the same text returns
            try:
                if isinstance(back, list):
                    back.append({'prim': 'edited_by_the_caller'})
                elif isinstance(back, dict):
                    back['prim' if 'prim' in back else next(iter(back))] = 'edited_by_the_caller'
                again = MB.nf(michelson_to_micheline(text, parser=parser()))
                ctx.count('texts_parsed_again_after_the_first_result_was_edited')
                if again != want:
                    ctx.violation('C18|second-parse-returns-the-edited-first-result|' + kind, 'text=%r' % text[:200], case)
                    continue
            except Exception as ex:
                ctx.violation('C18|second-parse-raises|' + kind, repr(ex)[:200], case)
                continue
        if got != want:
            d = first_diff(want, got)
            where = d[0].rsplit('/', 1)[-1] if d else '?'
            # mechanism: which primitive in argument position lost its frame
            lost = ''
            if d and isinstance(d[1], tuple) and d[1][0] == 'prim' and isinstance(d[2], tuple) and d[2][0] == 'prim' and d[1][1] != 'Pair':
                lost = d[1][1]
            sig = 'C18|roundtrip-differs|%s|%s' % (kind, classify(d))
            ctx.violation(sig, 'at %s: want %r got %r text=%r' % (d[0] if d else '?', d[1] if d else None, d[2] if d else None, text[:200]), case)
    if len(ctx.samples) < 3 and kind == 'code' and GS_size(e) > 6:
        ctx.samples.append({'kind': kind, 'expr': e, 'text': micheline_to_michelson(e, inline=True)[:300]})


def classify(d):
    if not d:
        return 'unknown'
    path, a, b = d
    if isinstance(a, tuple) and a[0] == 'string':
        return 'string-escape'
    if isinstance(a, tuple) and a[0] == 'int':
        return 'int'
    if isinstance(a, tuple) and a[0] == 'prim':
        tail = path.rsplit('.', 1)[-1]
        if tail.startswith('nargs(') or tail.startswith('annots('):
            # an argument-position child was swallowed/released: name the parent and the first child kind
            kids = [x[1] + ('+annots' if x[3] and not x[2] else '') for x in a[2] if isinstance(x, tuple) and x[0] == 'prim' and (x[2] or x[3])]
            return 'unframed-argument:' + (kids[0] if kids else a[1])
        return 'prim:' + a[1]
    if isinstance(a, tuple) and a[0] == 'seq':
        return 'sequence'
    return 'other'


def GS_size(e):
    if isinstance(e, list):
        return 1 + sum(GS_size(x) for x in e)
    if isinstance(e, dict):
        return 1 + sum(GS_size(x) for x in e.get('args', []))
    return 1


def run(ctx):
    rng = ctx.rng
    n = ctx.pick(4000, 200000) // ctx.nshards
    ctx.rule = ('grammar-directed Michelson-shaped expressions: types (all type primitives, 0-3 annotations anywhere incl. argument '
                'position), data (all constructors incl. Lambda_rec, Ticket, Elt, nested sequences, negative ints, strings over '
                'printable ASCII with escapes), code (every instruction shape), scripts with views; sizes forcing the multi-line '
                'layout; both inline and multi-line; distinct by normal form; non-trivial = >=3 nodes; plus the scripts, type sections, '
                'recorded arguments and storages of the mainnet corpus in the repository tests')
    for _ in range(n):
        kind, e = GS.gen_expr(rng, rng.choice([1, 2, 3, 4]))
        judge(ctx, kind, e)
        ctx.remember(judge, ctx, kind, e)
    from rv.gen import corpus as C
    for k, (kind, e) in enumerate(C.micheline_items()):
        if ctx.mine(k) and (not ctx.quick or GS_size(e) < 3000):
            ctx.count('corpus_expressions')
            judge(ctx, 'corpus-' + kind, e)
    # long strings / byte strings / annotations, hundreds of elements and arguments, deep nesting
    if ctx.mine(0):
        from rv.gen import micheline as GM
        for label, e in GM.large_shapes(rng, ctx.quick):
            if label.startswith('seq') and len(e) > 5000:
                continue
            ctx.count('large_shapes')
            judge(ctx, 'large-' + label.rsplit('-', 1)[0], e)
    ctx.run_again()
    ctx.require('roundtrips', 200)
    ctx.require('multi_line_outputs', 10)


def replay(ctx, case):
    judge(ctx, case['kind'], case['expr'])
