"""C17 — type annotations do not change execution or serialization (metamorphic monitor).
The same program is executed by the real interpreter with its type arguments re-annotated at random; the instruction-hook
traces (values after every instruction, failures, FAILWITH values, PACK bytes) of the variants must equal the trace of the
unannotated program. The annotation-blind reference interpreter is run as a third opinion (counted, not judged here)."""
import copy

from rv.checks import _lock as K
from rv.core import lockstep as L
from rv.gen import programs as GP
from rv.gen import typed as G
from rv.gen.programs import I, N, PUSH, TY
from rv.hooks import drive as D
from rv.hooks import instr as H
from rv.model import interp as MI
from rv.model import types as T

LEVEL = 'exploration'
SHARDS = {'quick': 4, 'thorough': 16}
TYPE_ARGS = {'PUSH': [0], 'NIL': [0], 'NONE': [0], 'EMPTY_SET': [0], 'EMPTY_MAP': [0, 1], 'EMPTY_BIG_MAP': [0, 1], 'LEFT': [0], 'RIGHT': [0],
             'LAMBDA': [0, 1], 'UNPACK': [0], 'CAST': [0]}
NO_FIELD_PARENTS = {'list', 'set', 'map', 'big_map', 'option', 'contract', 'lambda', 'ticket'}


def annotate_type(rng, e, parent=None, p=0.5):
    e = dict(e)
    if e.get('args'):
        e['args'] = [annotate_type(rng, a, e['prim'], p) if isinstance(a, dict) and 'prim' in a else a for a in e['args']]
    an = []
    if parent in ('pair', 'or') and rng.random() < p:
        an.append('%' + rng.choice(['a', 'b', 'fld', 'x1', 'default', 'amount', '', 'f' * 31, 'g' * 32, 'a_rather_long_field_name_0123456789_0123456789', 'h' * 255]))      # '' = the bare annotation `%`; field names may be long (255), unlike entrypoints
    if rng.random() < p / 3:
        an.append(':' + rng.choice(['t', 'ty', 'storage', '', 't' * 32]))
    if an:
        e['annots'] = an
    return e


def annotate_program(rng, code, p=0.5):
    if isinstance(code, list):
        return [annotate_program(rng, x, p) for x in code]
    if isinstance(code, dict) and 'prim' in code:
        e = dict(code)
        args = list(e.get('args') or [])
        for i, a in enumerate(args):
            if i in TYPE_ARGS.get(e['prim'], []) and isinstance(a, dict):
                args[i] = annotate_type(rng, a, None, p)
            elif isinstance(a, list) or (isinstance(a, dict) and 'prim' in a and e['prim'] not in ('PUSH',)):
                args[i] = annotate_program(rng, a, p)
        if args:
            e['args'] = args
        return e
    return code


def real_trace(code, env):
    it = D.new_interpreter()
    if env:
        L.apply_env(it.context, env)
    with H.monitoring(step_limit=50000) as mon:
        res = it.execute(code)
    fail = None
    if res.error is not None:
        fail = (mon.raised[0][0] if mon.raised else '?', mon.failwith)
    return mon, res, fail


def comb_feature(code):
    """Does the program touch combs (GET n / UPDATE n / UNPAIR n / PAIR n / PACK / COMPARE)?"""
    prims = K.prims_of(code)
    return sorted(prims & {'GET', 'UPDATE', 'UNPAIR', 'PAIR', 'PACK', 'COMPARE', 'UNPACK'})


def judge(ctx, rng, label, code, env, nvariants):
    base_mon, base_res, base_fail = real_trace(code, env)
    ctx.count('base_runs')
    case = {'code': code, 'env': K.env_to_json(env), 'label': label}
    for v in range(nvariants):
        var = annotate_program(rng, code, rng.choice([0.3, 0.6, 0.9]))
        if var == code:
            ctx.count('variants_without_annotations')
            continue
        ctx.count('variants')
        ctx.case(K.code_key(var, env), nontrivial=bool(comb_feature(code)))
        try:
            mon, res, fail = real_trace(var, env)
        except H.HarnessAbort:
            ctx.violation('C17|runaway', 'annotated variant does not terminate', dict(case, variant=var))
            continue
        div = L.first_divergence(base_mon.events, mon.events, 'values')
        vcase = dict(case, variant=var)
        if div is not None:
            ctx.violation('C17|%s|%s' % (div['prim'], div['class']), 'annotated variant differs after instruction #%d %s: %s' % (div['index'], div['prim'], div['detail']), vcase)
            continue
        if (base_res.error is None) != (res.error is None):
            who = (fail or base_fail)[0]
            ctx.violation('C17|%s|failure-depends-on-annotations' % who,
                          'plain: %s; annotated: %s' % (L.errtext(base_res.error) if base_res.error else 'ok', L.errtext(res.error) if res.error else 'ok'), vcase)
            continue
        if len(base_mon.events) != len(mon.events):
            ctx.violation('C17|trace-length', '%d vs %d instructions' % (len(base_mon.events), len(mon.events)), vcase)
            continue
        if base_fail != fail and base_fail is not None and fail is not None:
            d = None
            if base_fail[1] is not None and fail[1] is not None:
                d = L.slot_diff(base_fail[1], fail[1], 'values')
            if base_fail[0] != fail[0] or d:
                ctx.violation('C17|%s|failure-value-depends-on-annotations' % fail[0], '%r vs %r' % (base_fail, fail), vcase)
                continue
        if base_fail is not None and fail is not None and base_fail[0] == 'FAILWITH' and fail[0] == 'FAILWITH':
            # what the caller gets for a FAILWITH is the text of the failed value
            bt, vt = getattr(base_res.error, 'args', ())[-1:], getattr(res.error, 'args', ())[-1:]
            ctx.count('failwith_texts_compared')
            if bt != vt:
                ctx.violation('C17|FAILWITH|failure-text-depends-on-annotations', 'plain %r, annotated %r' % (bt, vt), vcase)
                continue
        ctx.count('variants_equal')
        for p_ in comb_feature(code):
            ctx.count('equal_with_' + p_)
    if len(ctx.samples) < 3 and comb_feature(code) and nvariants:
        ctx.samples.append({'program': code, 'annotated_variant': annotate_program(rng, code, 0.9)})


def comb_programs(rng, n):
    out = []
    leaf_types = [T.NAT, T.STRING, T.INT, T.BOOL, T.BYTES, T.MUTEZ, T.KEY_HASH, T.ADDRESS]
    for _ in range(n):
        k = rng.randint(2, 6)
        ts = [rng.choice(leaf_types) for _ in range(k)]
        t = T.pair(*ts)
        v = G.gen_value(rng, t)
        idx = rng.randrange(k)
        nn = 2 * idx + 1 if idx < k - 1 else 2 * idx
        kind = rng.choice(['GET n', 'UPDATE n', 'UNPAIR n', 'PACK', 'COMPARE', 'PACK;UNPACK', 'CAR/CDR', 'nested', 'field-then-None', 'field-then-None',
                           'field-then-wrap', 'field-then-wrap', 'rebuild-then-compare', 'rebuild-then-compare', 'APPLY-capture', 'FAILWITH-record', 'MAP-projecting-field', 'MAP-projecting-field'])
        if kind == 'GET n':
            code = [PUSH(t, v), I('GET', N(rng.choice([nn, rng.randint(0, 2 * k - 2)])))]
        elif kind == 'UPDATE n':
            code = [PUSH(t, v), PUSH(ts[idx], G.gen_value(rng, ts[idx])), I('UPDATE', N(nn))]
        elif kind == 'UNPAIR n':
            code = [PUSH(t, v), I('UNPAIR', N(rng.randint(2, k))), I('PAIR', N(2))]
        elif kind == 'PACK':
            code = [PUSH(t, v), I('PACK')]
        elif kind == 'PACK;UNPACK':
            code = [PUSH(t, v), I('PACK'), I('UNPACK', TY(t))]
        elif kind == 'COMPARE':
            code = [PUSH(t, G.gen_value(rng, t)), PUSH(t, v), I('COMPARE')]
        elif kind == 'field-then-None':
            which = rng.choice(['SLICE', 'ISNAT', 'EDIV', 'GET', 'SUB_MUTEZ', 'LIST'])
            if which == 'SLICE':
                st = rng.choice([T.STRING, T.BYTES])
                code = [PUSH(T.pair(st, T.NAT), (G.gen_value(rng, st), 3)), rng.choice([I('CAR'), I('GET', N(1))]), PUSH(T.NAT, rng.choice([0, 5, 50])),
                        PUSH(T.NAT, rng.choice([0, 9, 40])), I('SLICE')]
            elif which == 'ISNAT':
                code = [PUSH(T.pair(T.INT, T.NAT), (rng.choice([-5, 0, 7]), 1)), I('CAR'), I('ISNAT')]
            elif which == 'EDIV':
                code = [PUSH(T.pair(T.NAT, T.NAT), (7, rng.choice([0, 2]))), I('UNPAIR'), I('EDIV')]
            elif which == 'GET':
                code = [PUSH(T.pair(T.map_(T.STRING, T.NAT), T.STRING), ([('a', 1)], rng.choice(['a', 'zz']))), I('UNPAIR'), I('SWAP'), I('GET')]
            elif which == 'SUB_MUTEZ':
                code = [PUSH(T.pair(T.MUTEZ, T.MUTEZ), (5, rng.choice([3, 9]))), I('UNPAIR'), I('SUB_MUTEZ')]
            else:
                code = [PUSH(T.pair(T.NAT, T.STRING), (1, 'x')), I('UNPAIR'), I('NIL', TY(T.NAT)), I('SWAP'), I('CONS'), I('SWAP'), I('SOME'), I('PAIR'),
                        I('NONE', TY(T.pair(T.list_(T.NAT), T.option(T.STRING)))), I('SWAP'), I('SOME'), I('PAIR')]
        elif kind == 'field-then-wrap':
            # a component taken out of an (annotated) pair, then wrapped into a fresh container, then serialised
            take = rng.choice([[I('CAR')], [I('CDR')], [I('GET', N(nn))], [I('UNPAIR'), I('DROP')], [I('UNPAIR'), I('SWAP'), I('DROP')]])
            ct = {'CAR': ts[0], 'CDR': T.pair(*ts[1:]) if k > 2 else ts[1]}.get(take[0]['prim']) if len(take) == 1 and take[0]['prim'] != 'GET' else None
            if take[0]['prim'] == 'GET':
                ct = ts[idx] if idx < k - 1 or nn % 2 else ts[idx]
                if nn % 2 == 0 and idx < k - 1:
                    ct = None
            if len(take) == 2:
                ct = (T.pair(*ts[1:]) if k > 2 else ts[1]) if take[1]['prim'] == 'DROP' else ts[0]
            wrap = rng.choice(['SOME', 'LEFT', 'CONS', 'MAP-VALUE', 'PAIR'])
            tail = {'SOME': [I('SOME')], 'LEFT': [I('LEFT', TY(T.NAT))], 'PAIR': [PUSH(T.NAT, 1), I('PAIR')]}.get(wrap)
            if tail is None and ct is not None:
                tail = [I('NIL', TY(ct)), I('SWAP'), I('CONS')] if wrap == 'CONS' else \
                       [I('SOME'), I('EMPTY_MAP', TY(T.STRING), TY(ct)), I('SWAP'), PUSH(T.STRING, 'k'), I('UPDATE')]
            code = [PUSH(t, v)] + take + (tail or [I('SOME')]) + ([I('PACK')] if rng.random() < 0.5 else [])
        elif kind == 'rebuild-then-compare':
            # the same value once as pushed and once rebuilt from its parts: equal for COMPARE, MEM and GET
            inner = T.pair(rng.choice(leaf_types[:5]), rng.choice(leaf_types[:5]))
            t3 = rng.choice([T.pair(inner, T.NAT), T.pair(T.NAT, inner), T.pair(inner, inner)])
            v3 = G.gen_value(rng, t3)
            rebuild = rng.choice([[I('UNPAIR'), I('PAIR')], [I('UNPAIR'), I('PAIR', N(2))], [I('DUP'), I('CAR'), I('UPDATE', N(1))]])
            how = rng.choice(['COMPARE', 'MEM', 'GET'])
            if how == 'COMPARE':
                code = [PUSH(t3, v3), I('DUP')] + rebuild + [I('COMPARE')]
            elif how == 'MEM':
                code = [PUSH(T.set_(t3), [v3]), PUSH(t3, v3)] + rebuild + [I('MEM')]
            else:
                code = [PUSH(T.map_(t3, T.NAT), [(v3, 7)]), PUSH(t3, v3)] + rebuild + [I('GET')]
        elif kind == 'MAP-projecting-field':
            # MAP / ITER bodies whose results (or a map's keys) are components projected out of records
            rec = T.pair(rng.choice(leaf_types[:5]), rng.choice(leaf_types[:5]))
            rv1, rv2 = G.gen_value(rng, rec), G.gen_value(rng, rec)
            which = rng.choice(['map-values', 'map-values-get', 'list', 'key-from-field', 'set-from-field'])
            proj = rng.choice([[I('CDR'), I('CAR')], [I('CDR'), I('CDR')], [I('CDR'), I('GET', N(1))]])
            if which == 'map-values':
                code = [PUSH(T.map_(T.STRING, rec), [('a', rv1), ('b', rv2)]), I('MAP', proj)]
            elif which == 'map-values-get':
                code = [PUSH(T.map_(T.NAT, rec), [(1, rv1)]), I('MAP', proj), PUSH(T.NAT, 1), I('GET')]
            elif which == 'list':
                code = [PUSH(T.list_(rec), [rv1, rv2]), I('MAP', [proj[1]])]
            elif which == 'key-from-field' and T.comparable(rec[1]):
                code = [I('EMPTY_MAP', TY(rec[1]), TY(T.NAT)), PUSH(rec, rv1), I('CAR'), PUSH(T.option(T.NAT), ('Some', 5)), I('SWAP'), I('UPDATE'),
                        I('MAP', [I('CDR'), PUSH(T.NAT, 1), I('ADD')])]
            else:
                code = [I('EMPTY_SET', TY(rec[1])), PUSH(rec, rv1), I('CAR'), PUSH(T.BOOL, True), I('SWAP'), I('UPDATE'), I('SIZE')] if T.comparable(rec[1]) else [PUSH(rec, rv1), I('CAR')]
        elif kind == 'FAILWITH-record':
            code = [PUSH(t, v)] + ([I('UNPAIR'), I('PAIR')] if rng.random() < 0.3 else []) + [I('FAILWITH')]
        elif kind == 'APPLY-capture':
            code = [I('LAMBDA', TY(T.pair(T.NAT, T.NAT)), TY(T.NAT), [I('UNPAIR'), I('ADD')]), PUSH(T.pair(T.NAT, T.STRING), (7, 'x')), rng.choice([I('CAR'), I('GET', N(1))]),
                    I('APPLY'), I('DUP'), I('PACK'), I('SWAP'), PUSH(T.NAT, 3), I('EXEC'), I('PAIR')]
        elif kind == 'CAR/CDR':
            code = [PUSH(t, v), I('DUP'), I('CAR'), I('SWAP'), I('CDR'), I('PAIR')]
        else:
            t2 = T.pair(t, T.option(t), T.list_(t))
            code = [PUSH(t2, G.gen_value(rng, t2)), I('UNPAIR', N(3)), I('DROP'), I('IF_NONE', [I('GET', N(1))], [I('GET', N(min(nn, 3))), I('DIP', [I('DROP')])]), I('PACK')]
        out.append(('comb:' + kind, code))
    return out


def strip_type(e):
    o = {'prim': e['prim']}
    if e.get('args'):
        o['args'] = [strip_type(a) if isinstance(a, dict) and 'prim' in a else a for a in e['args']]
    return o


def reannotate_code(rng, code, how):
    """how: 'strip' (every annotation inside type arguments removed) | 'rename' (random field/type annotations instead)."""
    if isinstance(code, list):
        return [reannotate_code(rng, x, how) for x in code]
    if isinstance(code, dict) and 'prim' in code:
        e = dict(code)
        args = list(e.get('args') or [])
        targs = TYPE_ARGS.get(e['prim'], []) + ([0] if e['prim'] == 'CONTRACT' else [])
        for i, a in enumerate(args):
            if i in targs and isinstance(a, dict):
                args[i] = strip_type(a) if how == 'strip' else annotate_type(rng, strip_type(a), None, 0.6)
            elif isinstance(a, list) or (isinstance(a, dict) and 'prim' in a and e['prim'] not in ('PUSH',)):
                args[i] = reannotate_code(rng, a, how)
        if args:
            e['args'] = args
        return e
    return code


def judge_real(ctx, rng):
    """Real contracts: the storage type and every type argument inside the code re-annotated (the parameter type keeps its
    entrypoint names, instructions keep their own annotations); the same recorded call must give the same trace and result."""
    from pytezos.michelson.repl import Interpreter
    from rv.checks import _real as R
    done = {}
    for label, c, ep, path, tx, arg, storage, env in R.calls(ctx):
        n = done.get((c['name'], ep), 0)
        if n >= 2:
            continue
        done[(c['name'], ep)] = n + 1
        if not ctx.mine(len(done)):
            continue
        how = 'strip' if n == 0 else 'rename'
        var = []
        for sec in c['code']:
            if sec.get('prim') == 'storage':
                t0 = sec['args'][0]
                var.append({'prim': 'storage', 'args': [strip_type(t0) if how == 'strip' else annotate_type(rng, strip_type(t0), None, 0.6)]})
            elif sec.get('prim') == 'code':
                var.append({'prim': 'code', 'args': [reannotate_code(rng, sec['args'][0], how)]})
            else:
                var.append(sec)
        runs = []
        for script in (c['code'], var):
            with H.monitoring(step_limit=60000, window=8, node_budget=6000000) as mon:
                try:
                    out = Interpreter.run_code(parameter=arg, storage=storage, script=script, entrypoint=ep, **L.env_kwargs(env))
                except H.HarnessAbort:
                    out = None
            runs.append((mon, out))
        (bm, bo), (vm, vo) = runs
        case = {'label': 'real-contract', 'contract': c['name'], 'entrypoint': ep, 'how': how, 'call': label}
        ctx.count('real_contract_variants')
        ctx.case(('real', c['name'], ep, how, label), nontrivial=len(bm.events) >= 12)
        if bo is None or vo is None:
            ctx.count('real_contract_runs_beyond_the_step_or_memory_budget')     # not judged
            continue
        div = L.first_divergence(bm.events, vm.events, 'values')
        if div is not None:
            ctx.violation('C17|%s|%s' % (div['prim'], div['class']), 'real contract %s, type arguments %s: differs after instruction #%d %s: %s'
                          % (label, how, div['index'], div['prim'], div['detail']), case)
            continue
        if (bo[4] is None) != (vo[4] is None) or len(bm.events) != len(vm.events):
            ctx.violation('C17|%s|failure-depends-on-annotations' % ((vm.raised or bm.raised or [('?',)])[0][0]),
                          'real contract %s: plain %s; re-annotated %s' % (label, L.errtext(bo[4]) if bo[4] else 'ok', L.errtext(vo[4]) if vo[4] else 'ok'), case)
            continue
        if bo[4] is not None and bm.failwith is not None and vm.failwith is not None and L.slot_diff(bm.failwith, vm.failwith, 'values'):
            ctx.violation('C17|FAILWITH|failure-value-depends-on-annotations', 'real contract %s' % label, case)
            continue
        if bo[4] is None and (bo[1] != vo[1] or bo[0] != vo[0]):
            ctx.violation('C17|run_code|result-depends-on-annotations', 'real contract %s: storage/operations %r vs %r' % (label, (bo[0], bo[1]), (vo[0], vo[1])), case)
            continue
        ctx.count('real_contract_variants_equal')
        ctx.count('real_contract_hook_events', len(bm.events))


def run(ctx):
    rng = ctx.rng
    ctx.rule = ('programs: comb-focused (GET n / UPDATE n / UNPAIR n / PACK / UNPACK / COMPARE on combs of 2..6 leaves), instruction sweeps '
                'and compiled programs; each executed plain and with %d random re-annotations of every type argument (field '
                'annotations on pair/or members incl. the inner right-hand pairs of combs, type annotations anywhere); traces after '
                'every instruction, failures, FAILWITH values and PACK bytes must be identical; distinct by annotated program text; '
                'non-trivial = the program touches combs/PACK/COMPARE; plus the mainnet scripts of the repository tests with their '
                'storage type and all type arguments stripped of / re-decorated with annotations, on the recorded calls' % ctx.pick(3, 4))
    nv = ctx.pick(3, 4)
    progs = comb_programs(rng, ctx.pick(500, 30000) // ctx.nshards)
    sw = GP.sweeps(ctx.quick)
    progs += [p for i, p in enumerate(sw) if ctx.mine(i) and MI.run(p[1], [], None, record=False).kind != 'model-error']
    comp = GP.Compiler(rng, max_depth=3, size_limit=40)
    for _ in range(ctx.pick(800, 70000) // ctx.nshards):
        try:
            code, _types = comp.program()
            progs.append(('compiled', code))
        except (AssertionError, RecursionError):
            pass
    envs = GP.env_configs(rng, 6)
    for label, code in progs:
        judge(ctx, rng, label, code, envs[rng.randrange(len(envs))] if rng.random() < 0.3 else None, nv)
    judge_real(ctx, rng)
    ctx.require('real_contract_variants_equal' if not ctx.violations else 'real_contract_variants', 10)
    ctx.require('variants', 500)
    ctx.require('variants_equal' if not ctx.violations else 'variants', 300)
    for p_ in ('GET', 'UPDATE', 'UNPAIR', 'PACK', 'COMPARE'):
        ctx.require('equal_with_' + p_ if not ctx.violations else 'variants', 10)


def replay(ctx, case):
    if case.get('label') == 'real-contract':
        return judge_real(ctx, ctx.rng)
    code, var = case['code'], case.get('variant')
    env = K.env_from_json(case.get('env'))
    b, bres, bfail = real_trace(code, env)
    m, res, fail = real_trace(var, env)
    if L.first_divergence(b.events, m.events, 'values') is not None or (bres.error is None) != (res.error is None):
        ctx.violation('C17|replay', 'variant still differs', case)
