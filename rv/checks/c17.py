"""C17 — type annotations do not change execution or serialization (metamorphic monitor).
The same program is executed by the real interpreter with its type arguments re-annotated at random; the instruction-hook
traces (values after every instruction, failures, FAILWITH values, PACK bytes) of the variants must equal the trace of the
unannotated program. The annotation-blind reference interpreter is run as a third opinion (counted, not judged here)."""
import copy

from rv.checks import _lock as K
from rv.core import lockstep as L
from rv.gen import programs as GP
from rv.gen import typed as G
from rv.gen.programs import I, N, PUSH, TY
from rv.hooks import drive as D
from rv.hooks import instr as H
from rv.model import interp as MI
from rv.model import types as T

LEVEL = 'exploration'
SHARDS = {'quick': 4, 'thorough': 16}
TYPE_ARGS = {'PUSH': [0], 'NIL': [0], 'NONE': [0], 'EMPTY_SET': [0], 'EMPTY_MAP': [0, 1], 'EMPTY_BIG_MAP': [0, 1], 'LEFT': [0], 'RIGHT': [0],
             'LAMBDA': [0, 1], 'UNPACK': [0], 'CAST': [0]}
NO_FIELD_PARENTS = {'list', 'set', 'map', 'big_map', 'option', 'contract', 'lambda', 'ticket'}


def annotate_type(rng, e, parent=None, p=0.5):
    e = dict(e)
    if e.get('args'):
        e['args'] = [annotate_type(rng, a, e['prim'], p) if isinstance(a, dict) and 'prim' in a else a for a in e['args']]
    an = []
    if parent in ('pair', 'or') and rng.random() < p:
        an.append('%' + rng.choice(['a', 'b', 'fld', 'x1', 'default', 'amount']))
    if rng.random() < p / 3:
        an.append(':' + rng.choice(['t', 'ty', 'storage']))
    if an:
        e['annots'] = an
    return e


def annotate_program(rng, code, p=0.5):
    if isinstance(code, list):
        return [annotate_program(rng, x, p) for x in code]
    if isinstance(code, dict) and 'prim' in code:
        e = dict(code)
        args = list(e.get('args') or [])
        for i, a in enumerate(args):
            if i in TYPE_ARGS.get(e['prim'], []) and isinstance(a, dict):
                args[i] = annotate_type(rng, a, None, p)
            elif isinstance(a, list) or (isinstance(a, dict) and 'prim' in a and e['prim'] not in ('PUSH',)):
                args[i] = annotate_program(rng, a, p)
        if args:
            e['args'] = args
        return e
    return code


def real_trace(code, env):
    it = D.new_interpreter()
    if env:
        L.apply_env(it.context, env)
    with H.monitoring(step_limit=50000) as mon:
        res = it.execute(code)
    fail = None
    if res.error is not None:
        fail = (mon.raised[0][0] if mon.raised else '?', mon.failwith)
    return mon, res, fail


def comb_feature(code):
    """Does the program touch combs (GET n / UPDATE n / UNPAIR n / PAIR n / PACK / COMPARE)?"""
    prims = K.prims_of(code)
    return sorted(prims & {'GET', 'UPDATE', 'UNPAIR', 'PAIR', 'PACK', 'COMPARE', 'UNPACK'})


def judge(ctx, rng, label, code, env, nvariants):
    base_mon, base_res, base_fail = real_trace(code, env)
    ctx.count('base_runs')
    case = {'code': code, 'env': K.env_to_json(env), 'label': label}
    for v in range(nvariants):
        var = annotate_program(rng, code, rng.choice([0.3, 0.6, 0.9]))
        if var == code:
            ctx.count('variants_without_annotations')
            continue
        ctx.count('variants')
        ctx.case(K.code_key(var, env), nontrivial=bool(comb_feature(code)))
        try:
            mon, res, fail = real_trace(var, env)
        except H.HarnessAbort:
            ctx.violation('C17|runaway', 'annotated variant does not terminate', dict(case, variant=var))
            continue
        div = L.first_divergence(base_mon.events, mon.events, 'values')
        vcase = dict(case, variant=var)
        if div is not None:
            ctx.violation('C17|%s|%s' % (div['prim'], div['class']), 'annotated variant differs after instruction #%d %s: %s' % (div['index'], div['prim'], div['detail']), vcase)
            continue
        if (base_res.error is None) != (res.error is None):
            who = (fail or base_fail)[0]
            ctx.violation('C17|%s|failure-depends-on-annotations' % who,
                          'plain: %s; annotated: %s' % (L.errtext(base_res.error) if base_res.error else 'ok', L.errtext(res.error) if res.error else 'ok'), vcase)
            continue
        if len(base_mon.events) != len(mon.events):
            ctx.violation('C17|trace-length', '%d vs %d instructions' % (len(base_mon.events), len(mon.events)), vcase)
            continue
        if base_fail != fail and base_fail is not None and fail is not None:
            d = None
            if base_fail[1] is not None and fail[1] is not None:
                d = L.slot_diff(base_fail[1], fail[1], 'values')
            if base_fail[0] != fail[0] or d:
                ctx.violation('C17|%s|failure-value-depends-on-annotations' % fail[0], '%r vs %r' % (base_fail, fail), vcase)
                continue
        ctx.count('variants_equal')
        for p_ in comb_feature(code):
            ctx.count('equal_with_' + p_)
    if len(ctx.samples) < 3 and comb_feature(code) and nvariants:
        ctx.samples.append({'program': code, 'annotated_variant': annotate_program(rng, code, 0.9)})


def comb_programs(rng, n):
    out = []
    leaf_types = [T.NAT, T.STRING, T.INT, T.BOOL, T.BYTES, T.MUTEZ, T.KEY_HASH, T.ADDRESS]
    for _ in range(n):
        k = rng.randint(2, 6)
        ts = [rng.choice(leaf_types) for _ in range(k)]
        t = T.pair(*ts)
        v = G.gen_value(rng, t)
        idx = rng.randrange(k)
        nn = 2 * idx + 1 if idx < k - 1 else 2 * idx
        kind = rng.choice(['GET n', 'UPDATE n', 'UNPAIR n', 'PACK', 'COMPARE', 'PACK;UNPACK', 'CAR/CDR', 'nested', 'field-then-None', 'field-then-None'])
        if kind == 'GET n':
            code = [PUSH(t, v), I('GET', N(rng.choice([nn, rng.randint(0, 2 * k - 2)])))]
        elif kind == 'UPDATE n':
            code = [PUSH(t, v), PUSH(ts[idx], G.gen_value(rng, ts[idx])), I('UPDATE', N(nn))]
        elif kind == 'UNPAIR n':
            code = [PUSH(t, v), I('UNPAIR', N(rng.randint(2, k))), I('PAIR', N(2))]
        elif kind == 'PACK':
            code = [PUSH(t, v), I('PACK')]
        elif kind == 'PACK;UNPACK':
            code = [PUSH(t, v), I('PACK'), I('UNPACK', TY(t))]
        elif kind == 'COMPARE':
            code = [PUSH(t, G.gen_value(rng, t)), PUSH(t, v), I('COMPARE')]
        elif kind == 'field-then-None':
            which = rng.choice(['SLICE', 'ISNAT', 'EDIV', 'GET', 'SUB_MUTEZ', 'LIST'])
            if which == 'SLICE':
                st = rng.choice([T.STRING, T.BYTES])
                code = [PUSH(T.pair(st, T.NAT), (G.gen_value(rng, st), 3)), rng.choice([I('CAR'), I('GET', N(1))]), PUSH(T.NAT, rng.choice([0, 5, 50])),
                        PUSH(T.NAT, rng.choice([0, 9, 40])), I('SLICE')]
            elif which == 'ISNAT':
                code = [PUSH(T.pair(T.INT, T.NAT), (rng.choice([-5, 0, 7]), 1)), I('CAR'), I('ISNAT')]
            elif which == 'EDIV':
                code = [PUSH(T.pair(T.NAT, T.NAT), (7, rng.choice([0, 2]))), I('UNPAIR'), I('EDIV')]
            elif which == 'GET':
                code = [PUSH(T.pair(T.map_(T.STRING, T.NAT), T.STRING), ([('a', 1)], rng.choice(['a', 'zz']))), I('UNPAIR'), I('SWAP'), I('GET')]
            elif which == 'SUB_MUTEZ':
                code = [PUSH(T.pair(T.MUTEZ, T.MUTEZ), (5, rng.choice([3, 9]))), I('UNPAIR'), I('SUB_MUTEZ')]
            else:
                code = [PUSH(T.pair(T.NAT, T.STRING), (1, 'x')), I('UNPAIR'), I('NIL', TY(T.NAT)), I('SWAP'), I('CONS'), I('SWAP'), I('SOME'), I('PAIR'),
                        I('NONE', TY(T.pair(T.list_(T.NAT), T.option(T.STRING)))), I('SWAP'), I('SOME'), I('PAIR')]
        elif kind == 'CAR/CDR':
            code = [PUSH(t, v), I('DUP'), I('CAR'), I('SWAP'), I('CDR'), I('PAIR')]
        else:
            t2 = T.pair(t, T.option(t), T.list_(t))
            code = [PUSH(t2, G.gen_value(rng, t2)), I('UNPAIR', N(3)), I('DROP'), I('IF_NONE', [I('GET', N(1))], [I('GET', N(min(nn, 3))), I('DIP', [I('DROP')])]), I('PACK')]
        out.append(('comb:' + kind, code))
    return out


def run(ctx):
    rng = ctx.rng
    ctx.rule = ('programs: comb-focused (GET n / UPDATE n / UNPAIR n / PACK / UNPACK / COMPARE on combs of 2..6 leaves), instruction sweeps '
                'and compiled programs; each executed plain and with %d random re-annotations of every type argument (field '
                'annotations on pair/or members incl. the inner right-hand pairs of combs, type annotations anywhere); traces after '
                'every instruction, failures, FAILWITH values and PACK bytes must be identical; distinct by annotated program text; '
                'non-trivial = the program touches combs/PACK/COMPARE' % ctx.pick(3, 4))
    nv = ctx.pick(3, 4)
    progs = comb_programs(rng, ctx.pick(500, 30000) // ctx.nshards)
    sw = GP.sweeps(ctx.quick)
    progs += [p for i, p in enumerate(sw) if ctx.mine(i) and MI.run(p[1], [], None, record=False).kind != 'model-error']
    comp = GP.Compiler(rng, max_depth=3, size_limit=40)
    for _ in range(ctx.pick(800, 70000) // ctx.nshards):
        try:
            code, _types = comp.program()
            progs.append(('compiled', code))
        except (AssertionError, RecursionError):
            pass
    envs = GP.env_configs(rng, 6)
    for label, code in progs:
        judge(ctx, rng, label, code, envs[rng.randrange(len(envs))] if rng.random() < 0.3 else None, nv)
    ctx.require('variants', 500)
    ctx.require('variants_equal' if not ctx.violations else 'variants', 300)
    for p_ in ('GET', 'UPDATE', 'UNPAIR', 'PACK', 'COMPARE'):
        ctx.require('equal_with_' + p_ if not ctx.violations else 'variants', 10)


def replay(ctx, case):
    code, var = case['code'], case.get('variant')
    env = K.env_from_json(case.get('env'))
    b, bres, bfail = real_trace(code, env)
    m, res, fail = real_trace(var, env)
    if L.first_divergence(b.events, m.events, 'values') is not None or (bres.error is None) != (res.error is None):
        ctx.violation('C17|replay', 'variant still differs', case)
