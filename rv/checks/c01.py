"""C01 — the interpreter computes the reference result for well-typed programs.
Lock-step differential trace monitor: instruction hook on the real interpreter vs the calibrated reference interpreter."""
from rv.checks import _lock as K
from rv.checks import _real as R
from rv.gen import programs as GP
from rv.model import interp as I
from rv.model import types as T_

LEVEL = 'exploration'
SHARDS = {'quick': 4, 'thorough': 16}
CORE = ['DROP', 'DUP', 'SWAP', 'DIG', 'DUG', 'PUSH', 'DIP', 'IF', 'IF_NONE', 'IF_LEFT', 'IF_CONS', 'LOOP', 'LOOP_LEFT', 'ITER', 'MAP', 'LAMBDA',
        'EXEC', 'APPLY', 'FAILWITH', 'PAIR', 'UNPAIR', 'CAR', 'CDR', 'GET', 'UPDATE', 'LEFT', 'RIGHT', 'SOME', 'NONE', 'UNIT', 'NIL', 'CONS',
        'EMPTY_SET', 'EMPTY_MAP', 'MEM', 'GET_AND_UPDATE', 'SIZE', 'CONCAT', 'SLICE', 'ADD', 'SUB', 'MUL', 'EDIV', 'ABS', 'NEG', 'ISNAT', 'INT',
        'COMPARE', 'EQ', 'NEQ', 'LT', 'GT', 'LE', 'GE', 'BLAKE2B', 'SHA256', 'SHA512', 'SHA3', 'KECCAK', 'PACK', 'AMOUNT', 'BALANCE', 'SENDER',
        'SOURCE', 'NOW', 'LEVEL', 'CHAIN_ID', 'SELF_ADDRESS', 'HASH_KEY', 'IMPLICIT_ACCOUNT', 'ADDRESS', 'AND', 'OR', 'NOT']
MODE = 'values'
PID = 'C01'


def workload(ctx, pid, mode, deep):
    rng = ctx.rng
    i = 0
    for label, code in GP.sweeps(ctx.quick):
        i += 1
        if not ctx.mine(i):
            continue
        if I.run(code, [], None, record=False).kind == 'model-error':
            ctx.count('sweep_programs_dropped_as_ill_typed')
            continue
        ctx.count('sweep_programs')
        K.run_case(ctx, pid, 'sweep:' + label, code, None, mode, deep)
    for label, code in GP.lambda_rec_programs():
        i += 1
        if ctx.mine(i):
            ctx.count('lambda_rec_programs')
            K.run_case(ctx, pid, label, code, None, mode, deep)
    envs = GP.env_configs(rng, ctx.pick(11, 40))
    for label, code in GP.ENV_PROGRAMS:
        for env in envs:
            i += 1
            if ctx.mine(i):
                ctx.count('env_programs')
                K.run_case(ctx, pid, label, code, env or None, mode, deep)
    n = ctx.pick(1600, 300000) // ctx.nshards
    comp = GP.Compiler(rng, max_depth=ctx.pick(3, 4), size_limit=ctx.pick(40, 120))
    for j in range(n):
        try:
            code, types = comp.program()
        except (AssertionError, RecursionError) as e:
            ctx.count('generator_gave_up')
            continue
        env = envs[rng.randrange(len(envs))] if rng.random() < 0.5 else None
        ctx.count('compiled_programs')
        out = K.run_case(ctx, pid, 'compiled', code, env, mode, deep, poison=K.POISON[j % len(K.POISON)] if j % 4 == 1 else None)
        if out.kind == 'agree' and out.model.kind == 'ok':
            got = [t for t, _ in out.model.stack]
            if got != types:
                ctx.inconc('generator and model disagree on static types: %r vs %r' % (types, got))
        if j % 6 == 0 and mode == 'values' and out.kind == 'agree':
            # the same program as a contract through Interpreter.run_code (begin / execute / end, storage rendering)
            from rv.core import lockstep as L_
            oc = L_.run_both_contract(code, types, env, mode)
            ctx.count('run_code_programs')
            ctx.count('run_code_' + str(oc.kind))
            if oc.kind == 'violation':
                ctx.violation('%s|%s' % (pid, oc.sig), 'through Interpreter.run_code: ' + str(oc.detail), {'code': code, 'env': K.env_to_json(env), 'label': 'run_code', 'types': [T_.to_micheline(t) for t in types]})
        if len(ctx.samples) < 3 and out.kind == 'agree' and len(out.mon.events) > 12:
            ctx.samples.append({'program': code, 'instructions_executed': len(out.mon.events), 'outcome': out.model.kind})


def run(ctx):
    if not K.calibrated(ctx):
        return
    ctx.rule = ('(1) instruction sweeps: every core instruction over boundary pools, exhaustive over the pools; (2) environment '
                'programs x %d environment configurations (incl. defaults); (3) programs from the typed expression compiler with '
                'random stack scheduling (size <= %d, depth <= %d); each run lock-step: every post-instruction stack, the final '
                'stack and the FAILWITH value compared with the reference interpreter; distinct by program text + environment; '
                'non-trivial = >= 3 distinct primitives; (4) real contracts: the mainnet scripts and recorded calls shipped with the '
                'repository tests, through Interpreter.run_code with varied sender/amount/time and big maps filled from the recorded '
                'diffs (thorough: also random arguments for every entrypoint); operation-building instructions are adopted from the '
                'hook trace, everything else is compared in lock-step' % (ctx.pick(12, 41), ctx.pick(40, 120), ctx.pick(3, 4)))
    workload(ctx, PID, MODE, False)
    R.workload(ctx, PID, MODE)
    ctx.require('real_contract_agree' if not ctx.violations else 'real_contract_calls', 20)
    ctx.require('real_contract_hook_events', 1000)
    ctx.require('programs_run_after_a_failed_cell_on_the_same_interpreter', 50)
    ctx.require('agree', 300)
    ctx.require('hook_events', 3000)
    ctx.require('model_outcome_failwith', 5)
    K.coverage_requirements(ctx, CORE)
    masked = ctx.counters.get('violations_raw', 0)
    total = ctx.counters.get('agree', 0) + masked
    if total and masked > 0.3 * total:
        ctx.inconc('more than 30%% of the programs diverge (%d of %d)' % (masked, total))


def replay(ctx, case):
    if case.get('label') == 'real-contract':
        return R.replay(ctx, PID, case, MODE)
    if case.get('label') == 'run_code' and case.get('types'):
        from rv.core import lockstep as L_
        oc = L_.run_both_contract(case['code'], [T_.from_micheline(t) for t in case['types']], K.env_from_json(case.get('env')), MODE)
        if oc.kind == 'violation':
            ctx.violation('%s|%s' % (PID, oc.sig), oc.detail, case)
        return
    K.run_case(ctx, PID, case.get('label', 'replay'), case['code'], K.env_from_json(case.get('env')), MODE, False, poison=case.get('poison'))
