"""C15 — big map operations and lazy diffs agree with a layered dictionary model.
Histories of GET / MEM / UPDATE / GET_AND_UPDATE on a big_map (fresh, literal, or backed by on-chain entries served by a
simulated node at the RPC boundary) are run through Interpreter.run_code; the observations threaded into the storage, the
lazy diff applied to the on-chain content, the diff's key hashes and the node requests are checked against the model."""
import itertools
import re

from rv.gen.programs import I, N, PUSH, TY
from rv.hooks import rpc as R
from rv.model import micheline_bin as MB
from rv.model import order as O
from rv.model import pack as P
from rv.model import types as T

LEVEL = 'exploration'
SHARDS = {'quick': 4, 'thorough': 16}
VT = T.NAT
OBS = T.or_(T.option(VT), T.BOOL)
KEYSETS = [
    (T.NAT, [1, 2, 0, 99]),
    (T.STRING, ['a', 'b', '', 'zz']),
    (T.pair(T.NAT, T.STRING), [(1, 'a'), (1, 'b'), (0, ''), (2, 'a')]),
    (T.or_(T.NAT, T.STRING), [('L', 1), ('R', 'a'), ('L', 0), ('R', '')]),
    (T.option(T.INT), [None, ('Some', -1), ('Some', 0), ('Some', 5)]),
    (T.pair(T.NAT, T.pair(T.STRING, T.BOOL)), [(1, ('a', True)), (1, ('a', False)), (2, ('', True)), (0, ('z', False))]),
    (T.BYTES, [b'', b'\x00', b'\x01', b'\xff\xff']),
    (T.ADDRESS, None),
    # comb of four leaves: which layout the hash is taken over is not fixed by the property (sequence as PACK, or the legacy
    # nested pairs big-map hashing uses); only *consistency* is judged: the hash in the diff must be the hash pytezos
    # itself used to look the key up on the node, and it must be one of the two layouts
    (T.pair(T.NAT, T.STRING, T.BOOL, T.NAT), [(1, ('a', (True, 0))), (1, ('a', (False, 0))), (2, ('', (True, 5))), (0, ('z', (False, 9)))]),
]


def is_wide_comb(kt):
    return kt[0] == 'pair' and len(T.comb_types(kt)) >= 4


def legacy_hash(k, kt):
    from rv.model import micheline_bin as MB_
    return P.script_expr_hash(b'\x05' + MB_.encode(P.render(k, kt, 'legacy_optimized')))
BIG_ID = 4217


def op_code(kt, op):
    kind = op[0]
    keep = [I('DIG', N(2)), I('SWAP'), I('CONS'), I('SWAP')]
    if kind == 'get':
        return [I('DUP'), PUSH(kt, op[1]), I('GET'), I('LEFT', TY(T.BOOL))] + keep
    if kind == 'mem':
        return [I('DUP'), PUSH(kt, op[1]), I('MEM'), I('RIGHT', TY(T.option(VT)))] + keep
    if kind == 'upd':
        return [PUSH(T.option(VT), op[2]), PUSH(kt, op[1]), I('UPDATE')]
    if kind == 'gau':
        return [PUSH(T.option(VT), op[2]), PUSH(kt, op[1]), I('GET_AND_UPDATE'), I('LEFT', TY(T.BOOL))] + keep
    raise KeyError(kind)


def script(kt, ops):
    st = T.pair(T.big_map(kt, VT), T.list_(OBS))
    code = [I('CDR'), I('UNPAIR')]
    for op in ops:
        code += op_code(kt, op)
    code += [I('PAIR'), I('NIL', TY(T.OPERATION)), I('PAIR')]
    return [{'prim': 'parameter', 'args': [TY(T.UNIT)]}, {'prim': 'storage', 'args': [TY(st)]}, {'prim': 'code', 'args': [code]}]


class Model:
    def __init__(self, kt, onchain, local):
        self.kt = kt
        self.chain = list(onchain)      # [(k, v)]
        self.d = {repr(k): (k, v) for k, v in onchain}
        for k, v in local:
            self.d[repr(k)] = (k, v)
        self.obs = []

    def apply(self, op):
        kind, k = op[0], op[1]
        cur = self.d.get(repr(k))
        if kind == 'get':
            self.obs.append(('L', ('Some', cur[1]) if cur else None))
        elif kind == 'mem':
            self.obs.append(('R', cur is not None))
        else:
            if kind == 'gau':
                self.obs.append(('L', ('Some', cur[1]) if cur else None))
            if op[2] is None:
                self.d.pop(repr(k), None)
            else:
                self.d[repr(k)] = (k, op[2][1])

    def final(self):
        return {r: kv for r, kv in self.d.items()}


def judge(ctx, kt, onchain, literal, ops, mode, big_id=None):
    """mode: 'onchain' (storage holds the id; `onchain` served by the node), 'literal' (storage holds a literal map)."""
    global BIG_ID
    # ids a chain really hands out start at 0
    BIG_ID = big_id if big_id is not None else (0, 1, 4217, 2 ** 31)[(len(ops) + len(onchain) + ctx.evaluations) % 4]
    ctx.count('big_map_id_%s' % ('0' if BIG_ID == 0 else 'positive'))
    from pytezos.michelson.repl import Interpreter
    from pytezos.rpc import RpcNode, ShellQuery
    wide = is_wide_comb(kt)
    keyhash = {P.key_hash_of(k, kt): (k, v) for k, v in onchain}
    if wide:
        keyhash.update({legacy_hash(k, kt): (k, v) for k, v in onchain})     # the node answers under either layout
    lookups = []

    def handler(method, url, kwargs):
        m = re.search(r'/context/big_maps/(-?\d+)/(expr\w+)$', url)
        if m:
            lookups.append((int(m.group(1)), m.group(2)))
            if int(m.group(1)) == BIG_ID and m.group(2) in keyhash:
                return R.make_response(200, P.render(keyhash[m.group(2)][1], VT, 'readable'), url=url)
            return R.make_response(404, text='not found', ctype='text/plain', url=url)
        return R.make_response(404, text='unexpected url ' + url, ctype='text/plain', url=url)

    model = Model(kt, onchain if mode == 'onchain' else [], literal if mode == 'literal' else [])
    for op in ops:
        model.apply(op)
    storage = {'prim': 'Pair', 'args': [{'int': str(BIG_ID)} if mode == 'onchain' else P.render(O.sort_unique_pairs(kt, literal) if False else literal, T.map_(kt, VT), 'readable'), []]}
    case = {'key_type': T.to_micheline(kt), 'mode': mode, 'big_map_id': BIG_ID, 'onchain': [[P.render(k, kt, 'readable'), v] for k, v in onchain],
            'literal': [[P.render(k, kt, 'readable'), v] for k, v in literal],
            'ops': [[o[0], P.render(o[1], kt, 'readable')] + ([None if o[2] is None else o[2][1]] if len(o) > 2 else []) for o in ops]}
    kinds = '+'.join(sorted({o[0] for o in ops}))
    ctx.case((T.show(kt), mode, repr(onchain), repr(literal), repr(ops)), nontrivial=len(ops) >= 2)
    ctx.count('histories')
    ctx.count('mode_' + mode)
    t = R.Transport(handler)
    with R.installed(t):
        shell = ShellQuery(RpcNode('http://node.test'))
        try:
            operations, st_out, lazy_diff, stdout, error = Interpreter.run_code(
                parameter={'prim': 'Unit'}, storage=storage, script=script(kt, ops), shell=shell)
        except Exception as e:
            return ctx.violation('C15|run_code-raises|%s' % type(e).__name__, repr(e)[:300], case)
    ctx.count('node_lookups', len(lookups))
    if error is not None:
        return ctx.violation('C15|execution-fails|%s|%s' % (mode, last_op_kind(error, ops)), repr(error)[:300], case)
    # observations
    try:
        obs_m = st_out['args'][1] if isinstance(st_out, dict) else st_out[1]
        obs = [P.parse(x, OBS) for x in obs_m][::-1]
    except Exception as e:
        return ctx.violation('C15|storage-unreadable', '%r: %r' % (st_out, e), case)
    if obs != model.obs:
        j = next((i for i, (a, b) in enumerate(zip(obs, model.obs)) if a != b), min(len(obs), len(model.obs)))
        obs_ops = [o for o in ops if o[0] != 'upd']
        bad = obs_ops[j] if j < len(obs_ops) else None
        prior = [o for o in ops[:ops.index(bad)] if o[1] == bad[1] and o[0] != 'get' and o[0] != 'mem'] if bad else []
        hist = 'key-%s|%s' % ('onchain' if bad and any(O.compare(kt, bad[1], k) == 0 for k, _ in onchain) and mode == 'onchain' else 'fresh',
                              'after-' + '+'.join('%s-%s' % (p[0], 'some' if p[2] else 'none') for p in prior[-2:]) if prior else 'first-touch')
        return ctx.violation('C15|observation|%s|%s' % (bad[0] if bad else '?', hist), 'observations %r, model %r' % (obs, model.obs), case)
    ctx.count('observations_checked', len(obs))
    # lazy diff
    bm_id = st_out['args'][0] if isinstance(st_out, dict) else st_out[0]
    diffs = [d for d in lazy_diff if d.get('kind') == 'big_map']
    if len(diffs) != 1:
        return ctx.violation('C15|lazy-diff-count|' + mode, '%d big_map diffs: %r' % (len(diffs), lazy_diff), case)
    d = diffs[0]
    if 'int' not in bm_id or str(d['id']) != bm_id['int']:
        return ctx.violation('C15|lazy-diff-id|' + mode, 'storage %r, diff id %r' % (bm_id, d['id']), case)
    action = d['diff'].get('action')
    want_action = 'update' if mode == 'onchain' else 'alloc'
    if action != want_action:
        return ctx.violation('C15|lazy-diff-action|' + mode, '%r' % action, case)
    applied = {repr(k): (k, v) for k, v in (onchain if mode == 'onchain' else [])}
    for u in d['diff'].get('updates', []):
        try:
            k = P.parse(u['key'], kt)
        except Exception as e:
            return ctx.violation('C15|diff-key-unreadable', repr(u)[:200], case)
        ctx.count('diff_entries')
        if wide:
            cands = {P.key_hash_of(k, kt), legacy_hash(k, kt)}
            if u.get('key_hash') not in cands:
                return ctx.violation('C15|diff-key-hash|comb4', 'key %r: %s is neither layout\'s hash' % (k, u.get('key_hash')), case)
            used = {h for _p, h in lookups if h in cands}
            ctx.count('wide_comb_consistency_checks')
            if used and u.get('key_hash') not in used:
                return ctx.violation('C15|diff-key-hash-differs-from-lookup-hash|comb4',
                                     'key %r: looked up on the node as %s, diff entry says %s' % (k, sorted(used), u.get('key_hash')), case)
        elif u.get('key_hash') != P.key_hash_of(k, kt):
            return ctx.violation('C15|diff-key-hash|' + kt[0], 'key %r: %s, model %s' % (k, u.get('key_hash'), P.key_hash_of(k, kt)), case)
        if 'value' in u and u['value'] is not None:
            applied[repr(k)] = (k, P.parse(u['value'], VT))
        else:
            applied.pop(repr(k), None)
    if applied != model.final():
        missing = [kv for r, kv in model.final().items() if applied.get(r) != kv]
        extra = [kv for r, kv in applied.items() if r not in model.final()]
        which = 'lost-update' if missing else 'stale-entry'
        k_ = (missing or extra)[0][0]
        on = mode == 'onchain' and any(O.compare(kt, k_, k) == 0 for k, _ in onchain)
        return ctx.violation('C15|diff-applied-differs|%s|key-%s' % (which, 'onchain' if on else 'fresh'),
                             'diff applied to on-chain content gives %r, model %r' % (sorted(applied.values(), key=repr), sorted(model.final().values(), key=repr)), case)
    if mode == 'onchain':
        for ptr, h in lookups:
            if ptr != BIG_ID:
                return ctx.violation('C15|lookup-wrong-big-map', 'looked up %d' % ptr, case)
    ctx.count('diffs_checked')
    if len(ctx.samples) < 3 and len(ops) >= 3 and mode == 'onchain':
        ctx.samples.append({'case': case, 'lazy_diff': lazy_diff, 'node_lookups': len(lookups)})


def judge_value_types(ctx, rng):
    """The layered dictionary holds whatever value it was given - also "", 0x, False and empty collections, which are values
    like any other: a key bound to one of them is bound, and the diff says so."""
    from pytezos.michelson.repl import Interpreter
    kinds = [(T.STRING, ['', 'a']), (T.BYTES, [b'', b'\x00']), (T.BOOL, [False, True]), (T.list_(T.NAT), [[], [1]]), (T.map_(T.NAT, T.NAT), [[], [(1, 1)]]),
             (T.set_(T.NAT), [[], [2]]), (T.NAT, [0, 5]), (T.option(T.NAT), [None, ('Some', 0)]), (T.pair(T.STRING, T.BOOL), [('', False), ('x', True)])]
    for vt, vals in kinds:
        for literal in ([], [(1, vals[1])], [(1, vals[0]), (2, vals[1])]):
            for ops in ([(3, vals[0])], [(1, vals[0])], [(2, None), (3, vals[0]), (4, vals[1])], [(1, None), (1, vals[0])], [(5, vals[1]), (5, vals[0])]):
                code = [{'prim': 'CDR'}]
                model = dict(literal)
                for k, v in ops:
                    code += [{'prim': 'PUSH', 'args': [T.to_micheline(T.option(vt)), P.render(None if v is None else ('Some', v), T.option(vt), 'readable')]},
                             {'prim': 'PUSH', 'args': [{'prim': 'nat'}, {'int': str(k)}]}, {'prim': 'UPDATE'}]
                    if v is None:
                        model.pop(k, None)
                    else:
                        model[k] = v
                code += [{'prim': 'NIL', 'args': [{'prim': 'operation'}]}, {'prim': 'PAIR'}]
                script = [{'prim': 'parameter', 'args': [{'prim': 'unit'}]}, {'prim': 'storage', 'args': [T.to_micheline(T.big_map(T.NAT, vt))]}, {'prim': 'code', 'args': [code]}]
                case = {'value_type': T.to_micheline(vt), 'literal': P.render(literal, T.map_(T.NAT, vt), 'readable'), 'script_code': code}
                ctx.count('value_type_histories')
                ctx.case(('vt', T.show(vt), repr(literal), repr(ops)), nontrivial=True)
                try:
                    _ops, storage, lazy, _out, err = Interpreter.run_code(parameter={'prim': 'Unit'}, storage=P.render(literal, T.map_(T.NAT, vt), 'readable'), script=script)
                except Exception as e:
                    ctx.violation('C15|run_code-raises|value-type|' + vt[0], repr(e)[:200], case)
                    continue
                if err is not None:
                    ctx.violation('C15|run_code-fails|value-type|' + vt[0], L_errtext(err), case)
                    continue
                applied = {}
                for d in lazy:
                    for u in (d.get('diff') or {}).get('updates', []):
                        k = int(u['key']['int'])
                        if u.get('value') is None:
                            applied.pop(k, None)
                        else:
                            applied[k] = P.parse(u['value'], vt)
                ctx.count('diffs_checked')
                if applied != model:
                    falsy = [k for k, v in model.items() if k not in applied and not v]
                    ctx.violation('C15|diff-applied-differs|%s|value-type-%s' % ('binding-to-an-empty-value-dropped' if falsy else 'other', vt[0]),
                                  'diff gives %r, the dictionary holds %r' % (applied, model), case)


def judge_onchain_hashes(ctx):
    """Ground truth from mainnet: the lazy storage diffs recorded with the repository's contract tests carry (key, key_hash)
    as the chain computed them. The same key inserted through the interpreter must be reported under the same hash."""
    from pytezos.michelson.repl import Interpreter
    from rv.gen import corpus as C
    for j, (kt, key, recorded, vt, val) in enumerate(C.onchain_key_hashes()):
        if not ctx.mine(j):
            continue
        case = {'onchain_key_type': kt, 'key': key, 'recorded_key_hash': recorded}
        ctx.case(('onchain', repr(kt), repr(key)), nontrivial=True)
        ctx.count('mainnet_key_hashes')
        try:
            t = T.from_micheline(C.strip(kt))
            if P.key_hash_of(P.parse(key, t), t) != recorded and not is_wide_comb(t):
                ctx.inconc('the model disagrees with a key hash recorded on mainnet: %r %r' % (kt, key))
                continue
        except Exception:
            ctx.count('mainnet_keys_not_readable_by_model')
            continue
        sk = C.strip(kt)
        script = [{'prim': 'parameter', 'args': [{'prim': 'unit'}]}, {'prim': 'storage', 'args': [{'prim': 'big_map', 'args': [sk, {'prim': 'nat'}]}]},
                  {'prim': 'code', 'args': [[{'prim': 'CDR'}, {'prim': 'PUSH', 'args': [{'prim': 'nat'}, {'int': '1'}]}, {'prim': 'SOME'},
                                              {'prim': 'PUSH', 'args': [sk, key]}, {'prim': 'UPDATE'}, {'prim': 'NIL', 'args': [{'prim': 'operation'}]}, {'prim': 'PAIR'}]]}]
        try:
            ops, storage, lazy, stdout, err = Interpreter.run_code(parameter={'prim': 'Unit'}, storage=[], script=script)
        except Exception as e:
            ctx.violation('C15|run_code-raises|onchain-key', repr(e)[:200], case)
            continue
        if err is not None:
            ctx.violation('C15|run_code-fails|onchain-key', L_errtext(err), case)
            continue
        got = [u.get('key_hash') for d in lazy for u in (d.get('diff') or {}).get('updates', [])]
        ctx.count('diff_entries', len(got))
        if got != [recorded]:
            ctx.violation('C15|diff-key-hash|differs-from-the-hash-mainnet-recorded|' + t[0], 'key %r of type %s: %r, mainnet recorded %s' % (key, T.show(t), got, recorded), case)
        else:
            ctx.count('mainnet_key_hashes_reproduced')


def L_errtext(e):
    return ' / '.join(str(a)[:80] for a in getattr(e, 'args', [e]))[:300]


def last_op_kind(error, ops):
    a = [str(x) for x in getattr(error, 'args', [])]
    for p in ('GET_AND_UPDATE', 'UPDATE', 'GET', 'MEM', 'END', 'BEGIN'):
        if p in a:
            return p
    return '?'


def alphabet(keys):
    out = []
    for k in keys:
        out += [('get', k), ('mem', k), ('upd', k, ('Some', 7)), ('upd', k, None), ('gau', k, ('Some', 9)), ('gau', k, None)]
    return out


def run(ctx):
    rng = ctx.rng
    # O has no sort_unique_pairs; literal maps are built sorted below
    O.sort_unique_pairs = None
    from rv.gen import typed as G
    maxlen = ctx.pick(2, 4)
    ctx.rule = ('all operation sequences of length <= %d over 2 keys (GET, MEM, UPDATE Some/None, GET_AND_UPDATE Some/None) x every split '
                'of the keys between on-chain content and none, for big maps referenced by id (entries served by a simulated node), '
                'literal big maps and empty ones; random sequences <= 25 over 4 keys for 8 key types and of 30-80 operations over 24 keys (nat, string, pair, or, option, '
                'nested pair, bytes, address); observations, lazy diff applied to the on-chain content, key hashes and node lookups '
                'checked; plus the (key, key_hash) pairs mainnet recorded in the lazy storage diffs shipped with the repository tests, and the lazy '
                'diffs of the recorded calls of those contracts vs the reference interpreter; for a comb key of 4 leaves only the consistency of lookup hash and diff hash is judged (layout not fixed by the property)' % maxlen)
    ctx.exhaustive = True
    i = 0
    kt, keys = KEYSETS[0]
    two = keys[:2]
    for L in range(1, maxlen + 1):
        for seq in itertools.product(alphabet(two), repeat=L):
            for split in itertools.product([False, True], repeat=2):
                i += 1
                if not ctx.mine(i):
                    continue
                onchain = [(k, 100 + j) for j, (k, s) in enumerate(zip(two, split)) if s]
                judge(ctx, kt, O.sort_unique(T.pair(kt, VT), onchain), [], list(seq), 'onchain')
                if L <= maxlen - 1 or ctx.quick:
                    judge(ctx, kt, [], O.sort_unique(T.pair(kt, VT), onchain), list(seq), 'literal')
    for _ in range(ctx.pick(1000, 40000) // ctx.nshards):
        kt, keys = KEYSETS[rng.randrange(len(KEYSETS))]
        if keys is None:
            keys = [G.gen_address(rng) for _ in range(4)]
            keys = [k for j, k in enumerate(keys) if not any(O.weak(kt, k, q) or O.compare(kt, k, q) == 0 for q in keys[:j])]
        srt = O.sort_unique(kt, keys)
        chosen = [k for k in srt if rng.random() < 0.5]
        content = [(k, rng.randint(100, 199)) for k in chosen]
        ops = [rng.choice(alphabet(keys)) for _ in range(rng.randint(1, 25))]
        mode = rng.choice(['onchain', 'onchain', 'literal'])
        judge(ctx, kt, content if mode == 'onchain' else [], content if mode == 'literal' else [], ops, mode)
    # long histories over two dozen keys: diffs that grow past 9, 10, 11 ... written and removed entries
    for j in range(ctx.pick(40, 600) // ctx.nshards + 1):
        kt, keys = (T.NAT, list(range(24))) if j % 2 == 0 else (T.STRING, ['k%02d' % q for q in range(24)])
        chosen = [k for k in keys if rng.random() < 0.5]
        content = [(k, rng.randint(100, 199)) for k in chosen]
        ops = []
        for _ in range(rng.randint(30, 80)):
            k = rng.choice(keys)
            ops.append(rng.choice([('upd', k, ('Some', rng.randint(1, 50))), ('upd', k, ('Some', 7)), ('upd', k, None), ('gau', k, None), ('gau', k, ('Some', 9)), ('get', k), ('mem', k)]))
        mode = rng.choice(['onchain', 'onchain', 'literal'])
        ctx.count('long_histories_over_24_keys')
        judge(ctx, kt, content if mode == 'onchain' else [], content if mode == 'literal' else [], ops, mode)
    judge_onchain_hashes(ctx)
    if ctx.mine(1):
        judge_value_types(ctx, rng)
    # real contracts: the lazy diff of every finished recorded call vs the reference interpreter's big maps (only the
    # lazy-diff verdicts are taken here; the lock-step verdicts of the same runs belong to C01)
    from rv.checks import _real as RC
    RC.workload(ctx, 'C15', 'values', only='lazy-diff')
    ctx.require('mainnet_key_hashes', 10)
    ctx.require('real_contract_big_maps_compared_with_lazy_diff', 10)
    ctx.require('histories', 200)
    ctx.require('observations_checked', 200)
    ctx.require('diffs_checked' if not ctx.violations else 'histories', 100)
    ctx.require('node_lookups', 50)
    ctx.require('diff_entries' if not ctx.violations else 'histories', 50)


def replay(ctx, case):
    if 'value_type' in case:
        return judge_value_types(ctx, ctx.rng)
    if 'onchain_key_type' in case:
        return judge_onchain_hashes(ctx)
    if case.get('label') == 'real-contract':
        from rv.checks import _real as RC
        return RC.replay(ctx, 'C15', case, 'values', only='lazy-diff')
    kt = T.from_micheline(case['key_type'])
    onchain = [(P.parse(k, kt), v) for k, v in case['onchain']]
    literal = [(P.parse(k, kt), v) for k, v in case['literal']]
    ops = []
    for o in case['ops']:
        k = P.parse(o[1], kt)
        ops.append((o[0], k) if len(o) == 2 else (o[0], k, None if o[2] is None else ('Some', o[2])))
    judge(ctx, kt, onchain, literal, ops, case['mode'], case.get('big_map_id'))
