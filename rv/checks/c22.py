"""C22 — a failing REPL cell leaves the session as if it never ran.
Two runs of the real code: session A (with failing cells) vs session B (the same cells without the failing ones); every
later cell's error / stdout / stack, COMMIT's lazy diff and result, big-map ids and the final context must be identical.
Failures: natural (FAILWITH, ill-typed step, empty stack, bad literal, parse error, failing after having changed stack or
context) and injected at every instruction entry, every instruction exit and every stack operation of a cell."""
from rv.hooks import drive as D
from rv.hooks import extract as X
from rv.hooks import instr as HI
from rv.hooks import stack as HS

LEVEL = 'fault_enumeration'
SHARDS = {'quick': 4, 'thorough': 16}

SETUP = ['parameter nat', 'storage (pair (big_map nat nat) nat)',
         'code { UNPAIR ; SWAP ; UNPAIR ; DIG 2 ; DUP ; DUG 3 ; SOME ; DUP 4 ; UPDATE ; DIG 2 ; DIG 2 ; ADD ; SWAP ; PAIR ; NIL operation ; PAIR }']
GOOD = [
    'PUSH nat 1', 'PUSH string "a"', 'DROP', 'DUP', 'SWAP', 'PUSH nat 2 ; ADD', 'UNIT', 'PUSH (pair nat string) (Pair 1 "x")',
    'EMPTY_BIG_MAP nat nat', 'EMPTY_BIG_MAP nat nat ; PUSH (option nat) (Some 7) ; PUSH nat 5 ; UPDATE',
    'PUSH (option nat) (Some 9) ; PUSH nat 6 ; UPDATE', 'DUP ; PUSH nat 5 ; GET', 'PUSH (option nat) None ; PUSH nat 5 ; GET_AND_UPDATE ; DROP',
    'BEGIN 5 (Pair {} 0)', 'BEGIN 7 (Pair { Elt 1 1 } 3)', 'BEGIN 3 (Pair 17 0)', 'RUN %default 4 (Pair 23 1)', 'UNPAIR ; SWAP ; UNPAIR ; DIG 2 ; SOME ; PUSH nat 1 ; UPDATE ; PAIR ; NIL operation ; PAIR',
    'COMMIT', 'RUN %default 5 (Pair {} 0)', 'RUN %default 2 (Pair { Elt 2 8 } 1)', 'PATCH AMOUNT 100', 'PATCH NOW 5', 'PATCH SENDER "tz1VSUr8wwNhLAzempoch5d6hLRiTh8Cjcjb"',
    'PATCH AMOUNT', 'AMOUNT', 'NOW', 'SENDER', 'BIG_MAP_DIFF', 'DUMP', 'DUMP 1', 'DROP_ALL', 'LAMBDA nat nat { PUSH nat 1 ; ADD } ; PUSH nat 1 ; EXEC',
    'PUSH nat 3 ; DIP { PUSH nat 4 }', 'parameter unit', 'storage nat',
    # removal of the only key of a literal big map (its pending diff is then removals only), and re-packing for COMMIT
    'CDR ; UNPAIR ; NONE nat ; PUSH nat 1 ; UPDATE', 'PAIR ; NIL operation ; PAIR', 'PUSH (option nat) None ; PUSH nat 1 ; UPDATE',
]
BAD = [
    ('failwith', 'PUSH string "boom" ; FAILWITH'),
    ('failwith-after-push', 'PUSH nat 1 ; PUSH nat 2 ; PUSH string "boom" ; FAILWITH'),
    ('ill-typed', 'PUSH nat 1 ; PUSH string "a" ; ADD'),
    ('empty-stack', 'DROP ; DROP ; DROP ; DROP ; DROP ; DROP ; DROP ; DROP ; DROP'),
    ('drop-then-fail', 'DROP ; UNIT ; FAILWITH'),
    ('bad-literal', 'PUSH nat -1'),
    ('parse-error', 'PUSH nat'),
    ('parse-error-2', '{ { DROP'),
    ('unknown-prim', 'FOO'),
    ('big-map-then-fail', 'EMPTY_BIG_MAP nat nat ; PUSH (option nat) (Some 1) ; PUSH nat 1 ; UPDATE ; UNIT ; FAILWITH'),
    ('two-big-maps-then-fail', 'EMPTY_BIG_MAP nat nat ; EMPTY_BIG_MAP string nat ; UNIT ; FAILWITH'),
    ('update-top-big-map-then-fail', 'PUSH (option nat) (Some 5) ; PUSH nat 5 ; UPDATE ; UNIT ; FAILWITH'),
    ('patch-then-fail', 'PATCH AMOUNT 5 ; UNIT ; FAILWITH'),
    ('parameter-then-fail', 'parameter string ; UNIT ; FAILWITH'),
    ('begin-then-fail', 'BEGIN 1 (Pair {} 0) ; UNIT ; FAILWITH'),
    ('begin-by-id-then-fail', 'BEGIN 1 (Pair 5 0) ; UNIT ; FAILWITH'),
    ('run-by-id-then-fail', 'RUN %default 1 (Pair 9 0) ; UNIT ; FAILWITH'),
    ('dup-too-deep', 'DUP 9'),
    ('dig-too-deep', 'DIG 9'),
    ('nested-dip-fail', 'PUSH nat 1 ; PUSH nat 2 ; DIP 2 { DIP { UNIT ; FAILWITH } }'),
    ('run-then-fail', 'RUN %default 1 (Pair {} 0) ; UNIT ; FAILWITH'),
    ('commit-wrong-stack', 'PUSH nat 1 ; COMMIT'),
    ('begin-bad-storage', 'BEGIN 1 (Pair 5 {})'),
    ('drop-all-then-fail', 'DROP_ALL ; UNIT ; FAILWITH'),
    ('dip-fail', 'PUSH nat 1 ; DIP { UNIT ; FAILWITH }'),
    ('exec-fail', 'LAMBDA unit unit { FAILWITH } ; UNIT ; EXEC'),
]


def find_attr(obj, name, depth=0, out=None):
    out = [] if out is None else out
    if depth > 6 or obj is None:
        return out
    if hasattr(obj, name):
        out.append(getattr(obj, name))
    for child in ('items', 'item'):
        c = getattr(obj, child, None)
        if isinstance(c, (list, tuple)):
            for x in c:
                if hasattr(x, 'prim') or hasattr(x, 'items') or hasattr(x, 'item'):
                    find_attr(x, name, depth + 1, out)
        elif c is not None and (hasattr(c, 'items') or hasattr(c, 'item') or hasattr(c, name)):
            find_attr(c, name, depth + 1, out)
    return out


def snap_value(o):
    try:
        return (X.type_of_class(type(o)), X.value_of(o))
    except Exception as e:
        return ('unextractable', repr(o)[:80])


def observe(res, it):
    """Everything a user can see of a cell result."""
    err = None if res.error is None else ' | '.join(str(a)[:120] for a in getattr(res.error, 'args', [res.error]))
    stack = [snap_value(o) for o in it.stack.items]
    diffs = find_attr(res.instructions, 'lazy_diff') if res.instructions is not None else []
    results = [snap_value(r) for r in (find_attr(res.instructions, 'result') if res.instructions is not None else []) if hasattr(r, 'prim')]
    return {'error': err, 'stdout': list(res.stdout), 'stack': stack, 'lazy_diff': diffs, 'result': results, 'protected': it.stack.protected}


def context_snapshot(c):
    keys = ['parameter_expr', 'storage_expr', 'code_expr', 'amount', 'balance', 'sender', 'source', 'now', 'level', 'chain_id', 'address',
            'origination_index', 'tmp_big_map_index', 'tmp_sapling_index', 'alloc_big_map_index', 'alloc_sapling_index', 'balance_update',
            'big_maps', 'debug', 'mode', 'block_id', 'counter']
    return {k: repr(getattr(c, k, '<missing>')) for k in keys}


class Escaped:
    """A cell whose failure escaped Interpreter.execute as a raw exception (still a failing cell for the session)."""

    def __init__(self, e):
        self.error = e
        self.stdout = ['escaped: %s' % type(e).__name__]
        self.instructions = None
        self.stack = None


def execute(it, text):
    try:
        return it.execute(text)
    except Exception as e:      # noqa: a failure that is not reported through result.error
        return Escaped(e)


def run_session(cells, inject=None):
    """cells: list of text. inject: (cell_index, kind, k) -> failpoint inside that cell. Returns list of observations + ctx snapshot."""
    it = D.new_interpreter()
    obs = []
    entered = {}
    for idx, text in enumerate(cells):
        if inject is not None and inject[0] == idx:
            kind, k = inject[1], inject[2]
            if kind == 'stack':
                with HS.monitoring(fail_at=k) as sm:
                    res = execute(it, text)
                entered[idx] = sm.ops
            else:
                from pytezos.michelson.micheline import MichelsonRuntimeError
                count = {'n': 0}

                def fp(which, prim, index, kind=kind, k=k):
                    if which == kind:
                        count['n'] += 1
                        if count['n'] == k:
                            return MichelsonRuntimeError('INJECTED', '%s of instruction %d (%s)' % (which, k, prim))
                    return None
                with HI.monitoring(snapshots=False) as mon:
                    mon.failpoint = fp
                    res = execute(it, text)
                entered[idx] = count['n']
        else:
            res = execute(it, text)
        obs.append(observe(res, it))
    return obs, context_snapshot(it.context), it


def count_positions(prefix, cell):
    """Number of instruction entries and stack operations of `cell` when run after `prefix` without failure."""
    it = D.new_interpreter()
    for text in prefix:
        it.execute(text)
    with HI.monitoring(snapshots=False) as mon, HS.monitoring() as sm:
        res = it.execute(cell)
    return (mon.entered, sm.ops, res.error is None)


def first_diff(a, b):
    for k in ('error', 'stack', 'lazy_diff', 'result', 'stdout', 'protected'):
        if a[k] != b[k]:
            return k, a[k], b[k]
    return None


def judge(ctx, cells, failing, inject=None, label='natural'):
    """failing: set of indices of cells expected to fail in session A."""
    A, ctxA, itA = run_session(cells, inject)
    B, ctxB, itB = run_session([c for i, c in enumerate(cells) if i not in failing])
    case = {'cells': cells, 'failing': sorted(failing), 'inject': list(inject) if inject else None, 'label': label}
    ctx.count('sessions')
    ctx.count('label_' + label.split(':')[0])
    changed = any(c.startswith(('EMPTY_BIG_MAP', 'PATCH', 'parameter', 'BEGIN', 'RUN', 'DROP_ALL', 'PUSH (option', 'DROP ;', 'PUSH nat 1 ; PUSH nat 2')) for i, c in enumerate(cells) if i in failing)
    ctx.case((tuple(cells), tuple(sorted(failing)), repr(inject)), nontrivial=changed or inject is not None)
    for i in failing:
        if A[i]['error'] is None:
            ctx.count('expected_failure_did_not_fail')
            return None      # the cell did not fail: nothing to compare (e.g. injection position beyond the cell)
    ctx.count('failing_cells_observed', len(failing))
    kept = [i for i in range(len(cells)) if i not in failing]
    which = failure_kind(cells, failing, inject, label)
    for j, i in enumerate(kept):
        d = first_diff(A[i], B[j])
        ctx.count('cells_compared')
        if d:
            later = cells[i].split(' ')[0]
            return ctx.violation('C22|later-cell-differs|%s|%s|%s' % (d[0], which, later),
                                 'cell %d %r after the failing cell: %s = %r, without the failing cell %r' % (i, cells[i], d[0], d[1] if d[0] != 'stdout' else d[1][-2:], d[2] if d[0] != 'stdout' else d[2][-2:]), case)
    if ctxA != ctxB:
        k = next(k for k in ctxA if ctxA[k] != ctxB[k])
        return ctx.violation('C22|context-differs|%s|%s' % (k, which), '%s: %s vs %s' % (k, ctxA[k], ctxB[k]), case)
    # restored big maps must be bound to the live context
    for o in itA.stack.items:
        for bm in iter_big_maps(o):
            ctx.count('big_maps_on_final_stack')
            if getattr(bm, 'context', None) is not None and bm.context is not itA.context:
                return ctx.violation('C22|restored-big-map-bound-to-discarded-context|' + which, 'big map <%s> on the stack refers to a context that is not the session context' % bm.ptr, case)
    ctx.count('sessions_equal')
    return True


def iter_big_maps(o, depth=0):
    prim = getattr(o, 'prim', None)
    if prim in ('big_map', 'sapling_state'):
        yield o
    elif depth < 6:
        if prim == 'pair':
            for x in o.items:
                yield from iter_big_maps(x, depth + 1)
        elif prim == 'option' and o.item is not None:
            yield from iter_big_maps(o.item, depth + 1)
        elif prim in ('list',):
            for x in o.items:
                yield from iter_big_maps(x, depth + 1)
        elif prim == 'map':
            for k, x in o.items:
                yield from iter_big_maps(x, depth + 1)
        elif prim == 'or':
            for x in o.items:
                if hasattr(x, 'prim'):
                    yield from iter_big_maps(x, depth + 1)


def failure_kind(cells, failing, inject, label):
    if inject is not None:
        return 'injected-%s-in-%s' % (inject[1], cells[inject[0]].split(' ')[0])
    names = {c: n for n, c in BAD}
    return '+'.join(sorted({names.get(cells[i], 'other') for i in failing}))[:80]


def gen_session(rng, length):
    cells = list(SETUP) if rng.random() < 0.7 else []
    for _ in range(length):
        cells.append(rng.choice(GOOD))
    return cells


def run(ctx):
    rng = ctx.rng
    maxlen = ctx.pick(6, 10)
    ctx.rule = ('sessions of <= %d cells over a %d-cell alphabet (type declarations, pushes, big-map creation/update/get, BEGIN, code '
                'steps, COMMIT, RUN, PATCH, BIG_MAP_DIFF, DUMP, DROP_ALL, lambdas) after an optional setup; failing cells: %d natural '
                'kinds inserted at every position, and failures injected at EVERY instruction entry, EVERY instruction exit and '
                'EVERY stack operation of one cell; session with vs without the failing cells compared cell by cell (error, stack, '
                'stdout, lazy_diff, result) and on the final context; non-trivial = the failing cell changes stack/context first or is '
                'an injected failure' % (maxlen, len(GOOD), len(BAD)))
    nsessions = ctx.pick(24, 700) // ctx.nshards + 1
    for _ in range(nsessions):
        cells = gen_session(rng, rng.randint(2, maxlen))
        # natural failures: one or two failing cells at random positions
        for _k in range(ctx.pick(4, 8)):
            a = list(cells)
            failing = set()
            for _j in range(rng.choice([1, 1, 2])):
                pos = rng.randint(0, len(a))
                a.insert(pos, rng.choice(BAD)[1])
                failing = {f + 1 if f >= pos else f for f in failing} | {pos}
            judge(ctx, a, failing, None, 'natural')
        # injected failures at every position of one cell
        idx = rng.randrange(len(cells))
        ninstr, nstack, ok = count_positions(cells[:idx], cells[idx])
        if not ok:
            continue
        for kind, n in (('enter', ninstr), ('exit', ninstr), ('stack', nstack)):
            for k in range(1, n + 1):
                a = list(cells)
                a.insert(idx, cells[idx])       # the injected copy fails, the original runs afterwards
                r = judge(ctx, a, {idx}, (idx, kind, k), 'injected:' + kind)
                ctx.count('injection_positions')
    # every BAD kind at every position of one fixed representative session (exhaustive)
    base = list(SETUP) + ['EMPTY_BIG_MAP nat nat', 'PUSH (option nat) (Some 9) ; PUSH nat 6 ; UPDATE', 'BEGIN 5 (Pair {} 0)',
                          'UNPAIR ; SWAP ; UNPAIR ; DIG 2 ; SOME ; PUSH nat 1 ; UPDATE ; PAIR ; NIL operation ; PAIR', 'COMMIT', 'RUN %default 5 (Pair {} 0)']
    # injected failures at every position of every cell of the representative session (the random sessions above may draw short cells)
    k = 0
    for idx in range(len(SETUP), len(base)):
        ninstr, nstack, ok = count_positions(base[:idx], base[idx])
        if not ok:
            continue
        for kind, npos in (('enter', ninstr), ('exit', ninstr), ('stack', nstack)):
            for pos in range(1, npos + 1):
                k += 1
                if not ctx.mine(k):
                    continue
                a = list(base)
                a.insert(idx, base[idx])
                judge(ctx, a, {idx}, (idx, kind, pos), 'injected:' + kind)
                ctx.count('injection_positions')
    # second representative session: a literal big map whose every key is removed again (pending diff = removals only),
    # inspected with BIG_MAP_DIFF and committed
    base2 = list(SETUP) + ['BEGIN 7 (Pair { Elt 1 1 } 3)', 'CDR ; UNPAIR ; NONE nat ; PUSH nat 1 ; UPDATE', 'BIG_MAP_DIFF',
                           'PAIR ; NIL operation ; PAIR', 'COMMIT']
    # third representative session: the other lazily stored kind of value, a sapling state, committed twice
    base3 = ['parameter unit', 'storage (sapling_state 8)', 'BEGIN Unit {}', 'CDR', 'NIL operation ; PAIR', 'COMMIT', 'SAPLING_EMPTY_STATE 8', 'DROP',
             'BEGIN Unit {}', 'CDR ; NIL operation ; PAIR', 'COMMIT']
    n = 0
    for b in (base, base2, base3):
        for name, bad in BAD:
            for pos in range(len(b) + 1):
                n += 1
                if ctx.mine(n):
                    a = list(b)
                    a.insert(pos, bad)
                    judge(ctx, a, {pos}, None, 'natural-exhaustive')
    ctx.exhaustive = True
    ctx.require('sessions', 100)
    ctx.require('failing_cells_observed', 100)
    ctx.require('cells_compared', 300)
    ctx.require('injection_positions', 30)


def replay(ctx, case):
    inj = tuple(case['inject']) if case.get('inject') else None
    judge(ctx, case['cells'], set(case['failing']), inj, case.get('label', 'replay'))
