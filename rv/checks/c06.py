"""C06 — local operation forging matches the Tezos operation binary format (independent encoder and decoder)."""
from rv.gen import operations as GO
from rv.model import opbin as OB

LEVEL = 'exploration'
SHARDS = {'quick': 4, 'thorough': 16}


def feature(g, want, got):
    """Kind of the first content whose bytes differ + a field hint."""
    pos = 32
    for c in g['contents']:
        b = OB.encode_content(c)
        if got[pos:pos + len(b)] != b:
            hint = ''
            if c['kind'] == 'transaction' and c.get('parameters'):
                ep = c['parameters']['entrypoint']
                hint = '|entrypoint:' + (ep if ep in OB.ENTRYPOINTS else 'named')
            if c['kind'] == 'reveal':
                hint = '|proof' if 'proof' in c else '|key:' + c['public_key'][:4]
            if c['kind'] == 'transfer_ticket':
                hint = '|' + c['destination'][:3]
            return c['kind'] + hint
        pos += len(b)
    return 'length'


def judge(ctx, g, seen):
    from pytezos.operation.forge import forge_operation_group
    case = {'group': g}
    kinds = sorted({c['kind'] for c in g['contents']})
    for k in kinds:
        ctx.count('kind_' + k)
    try:
        want = OB.encode_group(g)
    except Exception as e:
        return ctx.inconc('model cannot encode %r: %r' % (g, e))
    try:
        got = forge_operation_group(g)
    except Exception as e:
        ctx.case(want, nontrivial=False)
        return ctx.violation('C06|forge-raises|%s|%s' % (type(e).__name__, '+'.join(kinds)[:60]), repr(e)[:300], case)
    ctx.count('forge_calls')
    ctx.case(want, nontrivial=len(g['contents']) > 1 or g['contents'][0]['kind'] not in ('failing_noop', 'activate_account'))
    if got != want:
        return ctx.violation('C06|bytes-differ|' + feature(g, want, got), 'pytezos=%s model=%s' % (got.hex()[:300], want.hex()[:300]), case)
    try:
        dec = OB.decode_group(got)
    except OB.DecodeError as e:
        return ctx.violation('C06|not-decodable|' + '+'.join(kinds)[:60], repr(e), case)
    ctx.count('decoded')
    if OB.normal_form_decoded(dec) != OB.normal_form(g):
        return ctx.violation('C06|decodes-to-different-group|' + '+'.join(kinds)[:60], 'decoded=%r' % (dec,), case)
    nfk = repr(OB.normal_form(g))
    if seen.setdefault(got, nfk) != nfk:
        return ctx.violation('C06|collision', 'two groups, same bytes', case)
    # the same through OperationGroup.forge()
    if ctx.evaluations % 7 == 0:
        try:
            from pytezos.context.impl import ExecutionContext
            from pytezos.operation.group import OperationGroup
            og = OperationGroup(context=ExecutionContext(), contents=[dict(c) for c in g['contents']], branch=g['branch'])
            got2 = bytes.fromhex(og.forge())
            ctx.count('OperationGroup_forge_calls')
            if got2 != want:
                ctx.violation('C06|OperationGroup.forge-differs|' + feature(g, want, got2), got2.hex()[:200], case)
            else:
                # the same object after its content was edited in place (a fee bumped, another branch): forge() is about the
                # group as it is now
                import copy
                g2 = copy.deepcopy(g)
                from rv.model import base58 as B58
                g2['branch'] = B58.encode(bytes(range(32)), 'B')
                c0 = g2['contents'][0]
                if 'fee' in c0:
                    c0['fee'] = str(int(c0['fee']) + 1)
                og.branch = g2['branch']
                if 'fee' in og.contents[0]:
                    og.contents[0]['fee'] = c0['fee']
                got3 = bytes.fromhex(og.forge())
                ctx.count('OperationGroup_forge_after_in_place_edit')
                if got3 != OB.encode_group(g2):
                    ctx.violation('C06|OperationGroup.forge-differs|after-in-place-edit', 'forged %s, the edited group encodes as %s' % (got3.hex()[:120], OB.encode_group(g2).hex()[:120]), dict(case, edited=g2))
        except Exception as e:
            ctx.violation('C06|OperationGroup.forge-raises|' + type(e).__name__, repr(e)[:300], case)


def run(ctx):
    rng = ctx.rng
    n = ctx.pick(5000, 260000) // ctx.nshards
    ctx.rule = ('operation groups of 1..8 contents over the ten kinds; every source kind tz1-tz4, destinations tz/KT1/sr1, the ten '
                'reserved entrypoints and named ones of length 1..31, Unit-on-default omitted, numbers at 2^(7k) boundaries up to '
                '2^70, optional delegate/parameters/proof present and absent; forged bytes == independent encoder, independent '
                'decoder returns the same group; distinct by byte string; non-trivial = batch or a manager operation')
    seen = {}
    for i in range(n):
        if i < len(OB.ENTRYPOINTS) * 2:
            ep = OB.ENTRYPOINTS[i % len(OB.ENTRYPOINTS)]
            c = GO.content(rng, 'transaction')
            c['parameters'] = {'entrypoint': ep, 'value': {'prim': 'Unit'} if i < len(OB.ENTRYPOINTS) else {'int': '5'}}
            g = {'branch': GO.group(rng, 1)['branch'], 'contents': [c]}
        else:
            g = GO.group(rng)
        judge(ctx, g, seen)
        ctx.remember(judge, ctx, g, seen)
        if len(ctx.samples) < 3 and len(g['contents']) == 2:
            ctx.samples.append({'group': g, 'forged': OB.encode_group(g).hex()})
    # real calls and originations: recorded arguments with their entrypoints, whole mainnet scripts with their storages
    from rv.gen import corpus as C
    j = 0
    for c in C.contracts():
        for op in c['operations']:
            j += 1
            if not ctx.mine(j):
                continue
            t = GO.content(rng, 'transaction')
            t['parameters'] = {'entrypoint': op['parameters'].get('entrypoint', 'default'), 'value': op['parameters'].get('value', {'prim': 'Unit'})}
            contents = [t]
            if op['storage'] is not None and j % 4 == 0:
                o = GO.content(rng, 'origination')
                o['script'] = {'code': c['code'], 'storage': op['storage']}
                contents.append(o)
            ctx.count('corpus_groups')
            judge(ctx, {'branch': GO.group(rng, 1)['branch'], 'contents': contents}, seen)
    ctx.run_again()
    for k in OB.TAGS:
        ctx.require('kind_' + k, 5)
    ctx.require('forge_calls', 100)
    ctx.require('decoded' if not ctx.violations else 'forge_calls', 50)


def replay(ctx, case):
    judge(ctx, case['group'], {})
