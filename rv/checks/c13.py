"""C13 — entrypoint resolution and parameter decoding are mutual inverses.
Model of the entrypoint rule (annotated nodes reachable through `or` nodes + the root) and inverse-law monitors."""
import itertools

from rv.model import micheline_bin as MB

LEVEL = 'exploration'
SHARDS = {'quick': 4, 'thorough': 16}

NAMES = [None, 'a', 'b', 'c', 'default', 'root', '']      # '' = the bare annotation `%`, which names nothing
LEAF_TYPES = [
    ({'prim': 'unit'}, [{'prim': 'Unit'}]),
    ({'prim': 'nat'}, [{'int': '0'}, {'int': '7'}]),
    ({'prim': 'pair', 'args': [{'prim': 'nat', 'annots': ['%x']}, {'prim': 'string', 'annots': ['%y']}]}, [{'prim': 'Pair', 'args': [{'int': '1'}, {'string': 's'}]}]),
    ({'prim': 'option', 'args': [{'prim': 'bool'}]}, [{'prim': 'None'}, {'prim': 'Some', 'args': [{'prim': 'True'}]}]),
    ({'prim': 'list', 'args': [{'prim': 'or', 'args': [{'prim': 'nat', 'annots': ['%inner']}, {'prim': 'unit'}]}]}, [[], [{'prim': 'Left', 'args': [{'int': '3'}]}]]),
    # payloads whose readable and optimized spellings differ
    ({'prim': 'timestamp'}, [{'string': '1970-01-01T00:00:10Z'}, {'string': '2022-06-08T15:57:00Z'}]),
    ({'prim': 'address'}, [{'string': 'KT1BEqzn5Wx8uJrZNvuS9DVHmLvG9td3fDLi'}, {'string': 'tz1VSUr8wwNhLAzempoch5d6hLRiTh8Cjcjb'}]),
]


def shapes(n):
    """All binary tree shapes with n leaves: 'L' | (left, right)."""
    if n == 1:
        return ['L']
    out = []
    for k in range(1, n):
        for l in shapes(k):
            for r in shapes(n - k):
                out.append((l, r))
    return out


def nodes_of(shape, path=''):
    yield path, shape
    if shape != 'L':
        yield from nodes_of(shape[0], path + '0')
        yield from nodes_of(shape[1], path + '1')


def build_type(shape, ann, leaf_types, path=''):
    """ann: path -> name|None ; leaf_types: path -> (type expr, values)"""
    if shape == 'L':
        e = dict(leaf_types[path][0])
    else:
        e = {'prim': 'or', 'args': [build_type(shape[0], ann, leaf_types, path + '0'), build_type(shape[1], ann, leaf_types, path + '1')]}
    name = ann.get(path)
    if name is not None:
        e = dict(e)
        e['annots'] = ['%' + name] + [a for a in e.get('annots', []) if not a.startswith('%')]
    return e


def strip_field(e):
    e = dict(e)
    an = [a for a in e.get('annots', []) if not a.startswith('%')]
    if an:
        e['annots'] = an
    else:
        e.pop('annots', None)
    return e


def subtree_type(shape, ann, leaf_types, path):
    s = shape
    for c in path:
        s = s[int(c)]
    return strip_field(build_type(s, {p[len(path):]: n for p, n in ann.items() if p.startswith(path)}, {p[len(path):]: v for p, v in leaf_types.items() if p.startswith(path)}))


def model_entrypoints(shape, ann):
    """name -> path of every annotated node reachable through or-nodes (root excluded), plus root name."""
    eps = {}
    for path, s in nodes_of(shape):
        if path and ann.get(path):
            eps[ann[path]] = path
    root = ann.get('') or ('root' if 'default' in eps else 'default')
    return eps, root


def normal_form(shape, ann, root, full):
    """(entrypoint, argument) of a full parameter value: deepest annotated node along its Left/Right path."""
    name, val, path, v, s = root, full, '', full, shape
    while s != 'L' and isinstance(v, dict) and v.get('prim') in ('Left', 'Right'):
        i = 0 if v['prim'] == 'Left' else 1
        path, v, s = path + str(i), v['args'][0], s[i]
        if ann.get(path):
            name, val = ann[path], v
    return name, val


def wrap(v, path):
    for c in reversed(path):
        v = {'prim': 'Left' if c == '0' else 'Right', 'args': [v]}
    return v


def sub_values(shape, leaf_types, path):
    """Some values of the subtree at `path` (each leaf below it, each of its values), as Micheline."""
    s = shape
    for c in path:
        s = s[int(c)]
    out = []
    for p, x in nodes_of(s):
        if x == 'L':
            for v in leaf_types[path + p][1]:
                out.append(wrap(v, p))
    return out


def tsig(t):
    if 'prim' not in t:
        return '?'
    return MB.nf(strip_all(t))


def strip_all(t):
    if isinstance(t, list):
        return [strip_all(x) for x in t]
    e = {'prim': t['prim']}
    if t.get('args'):
        e['args'] = [strip_all(a) for a in t['args']]
    return e


def placement_class(shape, ann):
    inner = [p for p, s in nodes_of(shape) if s != 'L' and p and ann.get(p)]
    f = []
    if inner:
        below = [p for p, s in nodes_of(shape) if s == 'L' and any(p.startswith(i) for i in inner)]
        f.append('annotated-inner-or-over-%s-leaves' % ('unannotated' if any(not ann.get(p) for p in below) else 'annotated'))
    if 'default' in ann.values():
        f.append('default')
    if 'root' in ann.values():
        f.append('root')
    if ann.get(''):
        f.append('root-annotated')
    if shape == 'L':
        f.append('non-union-root')
    return '+'.join(f) or 'plain'


def judge(ctx, shape, ann, leaf_types):
    from pytezos.michelson.sections.parameter import ParameterSection
    from rv.hooks import extract as X
    texpr = build_type(shape, ann, leaf_types)
    case = {'shape': shape, 'annotations': {k: v for k, v in ann.items() if v}, 'leaf_types': {k: LEAF_TYPES.index(v) for k, v in leaf_types.items()}}
    pc = placement_class(shape, ann)
    eps, root = model_entrypoints(shape, ann)
    ctx.case(MB.encode(strip_for_bin(texpr)), nontrivial=len(eps) >= 1)
    ctx.count('placement_' + pc)
    try:
        P = ParameterSection.match({'prim': 'parameter', 'args': [texpr]})
    except Exception as e:
        return ctx.violation('C13|parameter-type-rejected|' + pc, repr(e)[:300], case)
    # 1. listed entrypoints
    try:
        listed = P.list_entrypoints()
    except Exception as e:
        return ctx.violation('C13|list_entrypoints-raises|' + pc, repr(e)[:300], case)
    ctx.count('list_entrypoints_calls')
    want_names = set(eps) | {root}
    if set(listed) != want_names:
        return ctx.violation('C13|entrypoint-names|' + pc, 'listed %r, model %r' % (sorted(listed), sorted(want_names)), case)
    for name, cls in listed.items():
        path = eps.get(name, '') if name != root or name in eps else ''
        if name == root and name not in eps:
            path = ''
        want_t = subtree_type(shape, ann, leaf_types, path)
        try:
            got_t = X.type_of_class(cls)
        except Exception as e:
            ctx.violation('C13|entrypoint-type-unreadable|' + pc, repr(e)[:200], case)
            continue
        from rv.model import types as T
        if got_t != T.from_micheline(strip_all(want_t)):
            ctx.violation('C13|entrypoint-type|' + pc, '%s: listed %r, model %r' % (name, got_t, strip_all(want_t)), case)
    # 2. every full value -> (entrypoint, argument) -> same value
    for V in sub_values(shape, leaf_types, ''):
        ctx.count('full_values')
        vcase = dict(case, value=V)
        try:
            ps = P.from_micheline_value(V)
            d = ps.to_parameters()
        except Exception as e:
            ctx.violation('C13|to_parameters-raises|' + pc, '%r value=%r' % (e, V), vcase)
            continue
        if d.get('entrypoint') not in want_names:
            ctx.violation('C13|to_parameters-unlisted-entrypoint|' + pc, repr(d), vcase)
            continue
        try:
            back = P.from_parameters(d).to_micheline_value()
        except Exception as e:
            ctx.violation('C13|from_parameters-raises-on-own-output|' + pc, '%r d=%r' % (e, d), vcase)
            continue
        if MB.nf(back) != MB.nf(V):
            ctx.violation('C13|value-roundtrip-differs|' + pc, 'V=%r via %r -> %r' % (V, d, back), vcase)
            continue
        nname, nval = normal_form(shape, ann, root, V)
        if d.get('entrypoint') != nname or MB.nf(d.get('value')) != MB.nf(nval):
            ctx.violation('C13|pair-not-in-innermost-normal-form|' + pc, 'V=%r -> %r, innermost annotated node gives (%s, %r)' % (V, d, nname, nval), vcase)
            continue
        # the same decoded object converted again in another mode: the argument comes in that mode's spelling
        try:
            from rv.model import pack as PK
            from rv.model import types as T_
            npath = eps.get(nname, '') if nname in eps else ''
            nt = T_.from_micheline(strip_all(subtree_type(shape, ann, leaf_types, npath)))
            want_opt = PK.render(PK.parse(nval, nt), nt, 'optimized')
            d_opt = ps.to_parameters(mode='optimized')
            d_again = ps.to_parameters(mode='readable')
            ctx.count('second_conversions_of_the_same_object')
            if d_opt.get('entrypoint') != nname or MB.nf(d_opt.get('value')) != MB.nf(want_opt):
                ctx.violation('C13|to_parameters-second-call-in-another-mode|' + pc, 'optimized after readable: %r, model %r' % (d_opt, want_opt), vcase)
            elif MB.nf(d_again.get('value')) != MB.nf(d.get('value')):
                ctx.violation('C13|to_parameters-second-call-in-another-mode|' + pc, 'readable again: %r, first %r' % (d_again, d), vcase)
        except (PK.ParseError, PK.Uncertain):
            ctx.count('values_not_readable_by_the_typed_model')
        except Exception as e:
            ctx.violation('C13|to_parameters-second-call-raises|' + pc, repr(e)[:200], vcase)
        # the pair given with its members in the other order is the same pair
        try:
            swapped = P.from_parameters({'value': d['value'], 'entrypoint': d['entrypoint']}).to_micheline_value()
            ctx.count('pairs_given_value_first')
            if MB.nf(swapped) != MB.nf(V):
                ctx.violation('C13|from_parameters-depends-on-member-order|' + pc, 'value-first pair %r -> %r' % (d, swapped), vcase)
        except Exception as e:
            ctx.violation('C13|from_parameters-depends-on-member-order|' + pc, 'value-first pair %r: %r' % (d, e), vcase)
    # 3. every listed entrypoint and argument -> full value -> pair -> same full value
    for name in sorted(want_names):
        path = eps[name] if name in eps else ''
        for a in sub_values(shape, leaf_types, path)[:4]:
            ctx.count('entrypoint_arguments')
            pcase = dict(case, entrypoint=name, argument=a)
            want_full = wrap(a, path)
            try:
                ps = P.from_parameters({'entrypoint': name, 'value': a})
                full = ps.to_micheline_value()
            except Exception as e:
                ctx.violation('C13|from_parameters-raises|' + pc, '%r ep=%s arg=%r' % (e, name, a), pcase)
                continue
            if MB.nf(full) != MB.nf(want_full):
                ctx.violation('C13|from_parameters-wrong-value|' + pc, 'ep=%s arg=%r -> %r, model %r' % (name, a, full, want_full), pcase)
                continue
            try:
                d = ps.to_parameters()
                again = P.from_parameters(d).to_micheline_value()
            except Exception as e:
                ctx.violation('C13|pair-roundtrip-raises|' + pc, '%r ep=%s arg=%r' % (e, name, a), pcase)
                continue
            # normal form: the innermost annotated node on the way to the chosen leaf (the root if there is none)
            nname, nval = normal_form(shape, ann, root, want_full)
            ctx.count('normal_form_comparisons')
            if d.get('entrypoint') != nname or MB.nf(d.get('value')) != MB.nf(nval):
                ctx.violation('C13|pair-not-in-innermost-normal-form|' + pc,
                              'ep=%s arg=%r -> %r, innermost annotated node gives (%s, %r)' % (name, a, d, nname, nval), pcase)
                continue
            if MB.nf(again) != MB.nf(want_full):
                ctx.violation('C13|pair-roundtrip-differs|' + pc, 'ep=%s arg=%r -> %r -> %r' % (name, a, d, again), pcase)
    if len(ctx.samples) < 4 and len(eps) >= 2:
        ctx.samples.append({'parameter': texpr, 'model_entrypoints': sorted(want_names)})


def judge_corpus(ctx):
    """Real parameter types (or-trees with up to two dozen entrypoints, annotated inner nodes) and recorded calls."""
    from pytezos.michelson.sections.parameter import ParameterSection
    from rv.gen import corpus as C
    from rv.hooks import extract as X
    from rv.model import pack as PK
    from rv.model import types as T
    for k, c in enumerate(C.contracts()):
        if not ctx.mine(k):
            continue
        eps = C.entrypoints(c['parameter'])
        case = {'corpus_contract': c['name']}
        ctx.case(('corpus', c['name']), nontrivial=len(eps) >= 2)
        ctx.count('corpus_parameter_types')
        try:
            P = ParameterSection.match({'prim': 'parameter', 'args': [c['parameter']]})
            listed = P.list_entrypoints()
        except Exception as e:
            ctx.violation('C13|list_entrypoints-raises|corpus', repr(e)[:300], case)
            continue
        ctx.count('list_entrypoints_calls')
        if set(listed) != set(eps):
            ctx.violation('C13|entrypoint-names|corpus', 'listed %r, model %r' % (sorted(listed), sorted(eps)), case)
            continue
        pt = T.from_micheline(C.strip(c['parameter']))
        for name, cls in listed.items():
            want_t = T.from_micheline(C.strip(eps[name][1]))
            if X.type_of_class(cls) != want_t:
                ctx.violation('C13|entrypoint-type|corpus', '%s: listed %r, model %r' % (name, X.type_of_class(cls), want_t), case)
        for op in c['operations']:
            d = op['parameters']
            ep = d.get('entrypoint', 'default')
            if ep not in eps:
                continue
            ocase = dict(case, operation=op['name'])
            ctx.count('entrypoint_arguments')
            ctx.count('corpus_calls')
            path = eps[ep][0]
            try:
                want_full = PK.parse(C.wrap(d.get('value', {'prim': 'Unit'}), path), pt)
            except Exception:
                ctx.count('corpus_calls_not_readable_by_model')
                continue
            try:
                ps = P.from_parameters(d)
                full = PK.parse(ps.to_micheline_value(), pt)
            except Exception as e:
                ctx.violation('C13|from_parameters-raises|corpus', '%r ep=%s' % (e, ep), ocase)
                continue
            if full != want_full:
                ctx.violation('C13|from_parameters-wrong-value|corpus', 'ep=%s -> %r, model %r' % (ep, full, want_full), ocase)
                continue
            try:
                d2 = ps.to_parameters()
                again = PK.parse(P.from_parameters(d2).to_micheline_value(), pt)
            except Exception as e:
                ctx.violation('C13|pair-roundtrip-raises|corpus', '%r ep=%s' % (e, ep), ocase)
                continue
            ctx.count('full_values')
            # normal form: the innermost annotated node on the Left/Right path of the full value
            lr, v, t = '', want_full, pt
            while t[0] == 'or':
                lr += v[0]
                t, v = (t[1] if v[0] == 'L' else t[2]), v[1]
            best = max((n for n, (p_, _) in eps.items() if lr.startswith(p_)), key=lambda n: len(eps[n][0]))
            ctx.count('normal_form_comparisons')
            if d2.get('entrypoint') != best:
                ctx.violation('C13|pair-not-in-innermost-normal-form|corpus', 'ep=%s -> %r, innermost annotated node is %s' % (ep, d2.get('entrypoint'), best), ocase)
            elif again != want_full:
                ctx.violation('C13|pair-roundtrip-differs|corpus', 'ep=%s -> %r' % (ep, d2), ocase)


def strip_for_bin(t):
    return t


def placements(rng, shape, limit):
    nodes = [p for p, _ in nodes_of(shape)]
    total = len(NAMES) ** len(nodes)
    if total <= limit:
        it = itertools.product(NAMES, repeat=len(nodes))
    else:
        it = (tuple(rng.choice(NAMES) if rng.random() < 0.6 else None for _ in nodes) for _ in range(limit))
    for combo in it:
        named = [c for c in combo if c]
        if len(named) != len(set(named)):
            continue  # duplicate entrypoint names are not a valid parameter type
        if not combo[0] and 'default' in combo[1:] and 'root' in combo[1:]:
            continue  # the name of the unannotated root would collide with a branch called %root: not decided
        yield dict(zip(nodes, combo))


def run(ctx):
    rng = ctx.rng
    maxleaves = ctx.pick(3, 4)
    ctx.rule = ('parameter types: every union-tree shape with 1..%d leaves (+ random shapes to 6 leaves), every placement of field '
                'annotations from {a,b,c,default,root} on every node incl. the root (duplicates excluded, exhaustive up to a cap per '
                'shape), leaves over unit/nat/annotated pair/option/list-of-or, mixed and uniform (all-unit enumerations); per type: list_entrypoints vs model, every full value '
                '-> to_parameters -> from_parameters, every listed entrypoint x argument -> full value vs model wrap -> back; '
                'non-trivial = at least one named entrypoint besides the root' % maxleaves)
    i = 0
    for n in range(1, maxleaves + 1):
        for shape in shapes(n):
            leaves = [p for p, s in nodes_of(shape) if s == 'L']
            for ann in placements(rng, shape, ctx.pick(1500, 60000)):
                i += 1
                if not ctx.mine(i):
                    continue
                lt = {p: LEAF_TYPES[(k + i) % len(LEAF_TYPES)] for k, p in enumerate(leaves)}
                judge(ctx, shape, ann, lt)
                if i % 3 == 0:
                    # uniform unions: every leaf of the same type — all unit (an enumeration), all nat, ...
                    ctx.count('uniform_unions')
                    judge(ctx, shape, ann, {p: LEAF_TYPES[0 if i % 2 else (i // 6) % len(LEAF_TYPES)] for p in leaves})
    for _ in range(ctx.pick(300, 20000) // ctx.nshards):
        shape = rng.choice(shapes(rng.choice([4, 5, 6])))
        leaves = [p for p, s in nodes_of(shape) if s == 'L']
        ann = next(placements(rng, shape, 1), None)
        if ann is None:
            continue
        lt_ = {p: rng.choice(LEAF_TYPES) for p in leaves} if rng.random() < 0.8 else {p: LEAF_TYPES[0] for p in leaves}
        judge(ctx, shape, ann, lt_)
        ctx.remember(judge, ctx, shape, ann, lt_)
    judge_corpus(ctx)
    ctx.run_again()
    ctx.require('list_entrypoints_calls', 100)
    ctx.require('full_values', 100)
    ctx.require('entrypoint_arguments', 100)


def replay(ctx, case):
    if 'corpus_contract' in case:
        return judge_corpus(ctx)
    def tup(x):
        return 'L' if x == 'L' else (tup(x[0]), tup(x[1]))
    judge(ctx, tup(case['shape']), dict(case['annotations']), {k: LEAF_TYPES[v] for k, v in case['leaf_types'].items()})
