"""Shared driver for the lock-step interpreter checks (C01 C02 C14 C17 C19 C20 C21)."""
from rv.core import lockstep as L
from rv.hooks import extract as X
from rv.model import types as T
from rv.selftest import calibrate


def calibrated(ctx):
    ok, cal = calibrate.ensure()
    ctx.extra['calibration'] = {'octez_vectors': cal.get('vectors'), 'agree': cal.get('agree'),
                                'skipped': sum(cal.get('skipped', {}).values()), 'excluded': list(cal.get('excluded', {}))}
    if not ok:
        ctx.inconc('reference interpreter failed its calibration against the Octez vectors: %r' % (cal.get('disagree', [])[:2],))
    return ok


def prims_of(code, acc=None):
    acc = set() if acc is None else acc
    if isinstance(code, list):
        for x in code:
            prims_of(x, acc)
    elif isinstance(code, dict) and 'prim' in code:
        if code['prim'].isupper() or '_' in code['prim'] and code['prim'][0].isupper():
            acc.add(code['prim'])
        for a in code.get('args', []):
            prims_of(a, acc)
    return acc


def P_(prim, *args):
    return {'prim': prim, 'args': list(args)} if args else {'prim': prim}


_NAT, _STR = {'prim': 'nat'}, {'prim': 'string'}
# cells that fail AFTER having entered a protected region (DIP / DIP n / ITER / MAP / lambda body): the session must be as if
# they never ran, so a program executed afterwards on the same interpreter behaves as on a fresh one
POISON = [
    [P_('PUSH', _NAT, {'int': '1'}), P_('PUSH', _NAT, {'int': '2'}), P_('DIP', [P_('PUSH', _STR, {'string': 'boom'}), P_('FAILWITH')])],
    [P_('PUSH', _NAT, {'int': '1'}), P_('PUSH', _NAT, {'int': '2'}), P_('PUSH', _NAT, {'int': '3'}), P_('DIP', {'int': '2'}, [P_('UNIT'), P_('FAILWITH')])],
    [P_('PUSH', _NAT, {'int': '1'}), P_('PUSH', _NAT, {'int': '2'}), P_('DIP', [P_('DIP', [P_('UNIT'), P_('FAILWITH')])])],
    [P_('PUSH', _NAT, {'int': '7'}), P_('PUSH', {'prim': 'list', 'args': [_NAT]}, [{'int': '1'}, {'int': '2'}]), P_('ITER', [P_('DIP', [P_('UNIT'), P_('FAILWITH')])])],
    [P_('PUSH', _NAT, {'int': '1'}), P_('PUSH', _STR, {'string': 'a'}), P_('DIP', [P_('PUSH', _NAT, {'int': '2'}), P_('ADD'), P_('PUSH', _STR, {'string': 'x'}), P_('ADD')])],
    [P_('PUSH', _NAT, {'int': '1'}), P_('PUSH', _NAT, {'int': '5'}), P_('LAMBDA', _NAT, _NAT, [P_('PUSH', _NAT, {'int': '1'}), P_('DIP', [P_('FAILWITH')])]), P_('SWAP'), P_('DIP', [P_('SWAP')]), P_('EXEC')],
    [P_('PUSH', _STR, {'string': 'boom'}), P_('FAILWITH')],
]


def run_case(ctx, pid, label, code, env=None, mode='values', deep_types=False, extra_case=None, poison=None):
    """Runs one program on model and real interpreter, records the verdict. Returns the Outcome.
    poison: a failing cell executed first on the same interpreter (the REPL restores its state after a failure)."""
    it = None
    if poison is not None:
        from rv.hooks import drive as D_
        it = D_.new_interpreter()
        pres = it.execute(poison)
        if pres.error is None:
            ctx.count('poison_cells_that_did_not_fail')
            it = None
        else:
            ctx.count('programs_run_after_a_failed_cell_on_the_same_interpreter')
            label = label + '+after-failed-cell'
    out = L.run_both(code, env, mode=mode, keep_objects=deep_types, interp=it)
    case = {'code': code, 'env': env_to_json(env), 'label': label}
    if poison is not None:
        case['poison'] = poison
    if extra_case:
        case.update(extra_case)
    prims = prims_of(code)
    ctx.case(code_key(code, env), nontrivial=len(prims) >= 3 or len(code) >= 4)
    if out.kind == 'unsupported':
        ctx.count('model_unsupported')
        return out
    if out.kind == 'inconclusive':
        ctx.count('inconclusive_cases_model_error')
        if ctx.counters['inconclusive_cases_model_error'] <= 3:
            ctx.extra.setdefault('model_error_examples', []).append({'label': label, 'detail': out.detail})
        return out
    for p, n in out.mon.prims.items():
        ctx.counters['hook_' + p] += n
    ctx.count('hook_events', len(out.mon.events))
    ctx.count('model_outcome_' + out.model.kind)
    if out.kind == 'agree':
        ctx.count('agree')
        if deep_types and out.mon.objects:
            # every value that was on the stack at any point, not only the final ones: each container's declared component
            # types vs the components it holds
            walked, bad = L.self_consistency(out.mon, 2000)
            ctx.count('objects_walked_for_self_consistency', walked)
            if bad:
                ctx.violation('%s|%s' % (pid, bad[0]), '%s: %s' % (label, bad[1]), case)
                return out
        if deep_types and out.model.kind == 'ok' and out.mon.objects:
            objs = out.mon.objects[-1]
            for j, (obj, (mt, _mv)) in enumerate(zip(objs, out.model.events[-1][1])):
                errs = X.conformance_errors(obj, mt)
                ctx.count('deep_conformance_walks')
                if errs:
                    path, exp, found, how = errs[0]
                    lastprim = out.model.events[-1][0]
                    ctx.violation('%s|deep-type|%s|%s' % (pid, producer(out, j), how),
                                  'final slot %d at %s: %s type %s, expected %s' % (j, path, how, found if isinstance(found, str) else T.show(found), T.show(exp)), case)
                    break
        return out
    if mode == 'types' and getattr(out, 'div', {}).get('class') not in ('type', 'stack-depth'):
        ctx.count('diverged_for_non_type_reasons_not_judged_here')   # value / control-flow divergences belong to C01
        return out
    ctx.violation('%s|%s' % (pid, out.sig), '%s: %s' % (label, out.detail), case)
    return out


def producer(out, slot):
    """Primitive of the last instruction after which the given final slot changed (who produced it)."""
    ev = out.model.events
    final = ev[-1][1]
    depth_from_bottom = len(final) - slot
    last = ev[-1][0]
    for i in range(len(ev) - 1, 0, -1):
        cur, prev = ev[i][1], ev[i - 1][1]
        ci, pi = len(cur) - depth_from_bottom, len(prev) - depth_from_bottom
        if ci < 0:
            break
        if pi < 0 or cur[ci] != prev[pi]:
            return ev[i][0]
    return ev[0][0] if ev else last


def env_to_json(env):
    if not env:
        return None
    out = {}
    for k, v in env.items():
        if isinstance(v, bytes):
            out[k] = {'hex': v.hex()}
        elif isinstance(v, tuple):
            out[k] = {'addr': v[0].hex(), 'ep': v[1]}
        elif isinstance(v, dict):
            out[k] = {'vp': [[kk.hex(), vv] for kk, vv in v.items()]}
        else:
            out[k] = v
    return out


def env_from_json(j):
    if not j:
        return None
    out = {}
    for k, v in j.items():
        if isinstance(v, dict) and 'hex' in v:
            out[k] = bytes.fromhex(v['hex'])
        elif isinstance(v, dict) and 'addr' in v:
            out[k] = (bytes.fromhex(v['addr']), v['ep'])
        elif isinstance(v, dict) and 'vp' in v:
            out[k] = {bytes.fromhex(a): b for a, b in v['vp']}
        else:
            out[k] = v
    return out


def code_key(code, env):
    import json
    return json.dumps([code, env_to_json(env)], sort_keys=True, default=repr)


def coverage_requirements(ctx, prims, minimum=1):
    for p in prims:
        ctx.require('hook_' + p, minimum)
