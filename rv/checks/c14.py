"""C14 — sets and maps behave like sorted dictionaries under any update history.
Histories of UPDATE/GET_AND_UPDATE/MEM/GET/SIZE/ITER/MAP over small key universes of every comparable shape, run lock-step
against the reference interpreter (model sorted dictionary), plus a sortedness invariant evaluated on every set/map
that appears on the stack after any instruction, and rejection of unsorted/duplicate literals."""
from rv.checks import _lock as K
from rv.core import lockstep as L
from rv.gen import programs as GP
from rv.gen import typed as G
from rv.gen.programs import I, N, PUSH, TY
from rv.hooks import drive as D
from rv.model import order as O
from rv.model import pack as P
from rv.model import types as T

LEVEL = 'exploration'
SHARDS = {'quick': 4, 'thorough': 16}
PID = 'C14'


def sorted_invariant(ctx, out, case):
    """Every set/map in every recorded snapshot is strictly increasing under the model order."""
    for prim, snap in out.mon.events:
        for t, v in snap or []:
            if t == 'extract-error':
                continue
            bad = unsorted_in(v, t)
            ctx.count('invariant_evaluations')
            if bad:
                ctx.violation('C14|unsorted-or-duplicate-after|%s|%s' % (prim, bad[0]), 'after %s: %s %r' % (prim, bad[0], bad[1]), case)
                return True
    return False


def unsorted_in(v, t):
    p = t[0]
    if p == 'set':
        for a, b in zip(v, v[1:]):
            if O.compare(t[1], a, b) >= 0:
                return ('set(%s)' % t[1][0], v)
    elif p == 'map':
        for a, b in zip(v, v[1:]):
            if O.compare(t[1], a[0], b[0]) >= 0:
                return ('map(%s)' % t[1][0], v)
        for k, x in v:
            r = unsorted_in(x, t[2])
            if r:
                return r
    elif p == 'pair':
        return unsorted_in(v[0], t[1]) or unsorted_in(v[1], t[2])
    elif p == 'option' and v is not None:
        return unsorted_in(v[1], t[1])
    elif p == 'or':
        return unsorted_in(v[1], t[1] if v[0] == 'L' else t[2])
    elif p == 'list':
        for x in v:
            r = unsorted_in(x, t[1])
            if r:
                return r
    return None


def history(rng, kt, universe, length):
    """A program: starts from a literal or empty set and map, applies `length` operations, threading observations."""
    vt = rng.choice([T.NAT, T.STRING, T.BOOL, T.BYTES, T.list_(T.NAT), T.option(T.NAT)])
    vals = {'nat': [0, 1, 7, 99], 'string': ['', 'a', ''], 'bool': [False, True, False], 'bytes': [b'', b'\x00', b''], 'list': [[], [1], []],
            'option': [None, ('Some', 0), None]}[vt[0]]
    st, mt = T.set_(kt), T.map_(kt, vt)
    init = O.sort_unique(kt, rng.sample(universe, rng.randint(0, min(3, len(universe)))))
    code = [PUSH(mt, [(k, vals[i % len(vals)]) for i, k in enumerate(init)]) if rng.random() < 0.7 else I('EMPTY_MAP', TY(kt), TY(vt)),
            PUSH(st, init) if rng.random() < 0.7 else I('EMPTY_SET', TY(kt))]
    # stack: set : map ; observations are accumulated below by DUG
    nobs = 0
    ops = []
    for _ in range(length):
        k = rng.choice(universe)
        op = rng.choice(['set.add', 'set.remove', 'set.mem', 'map.put', 'map.del', 'map.get', 'map.mem', 'map.gau', 'size', 'set.iter', 'map.iter', 'map.map',
                         'copy.set', 'copy.map'])
        ops.append(op)
        # the key handed to the operation is, a third of the time, the copy DUP makes (the original is dropped)
        pushk = [PUSH(kt, k)] + ([I('DUP'), I('DIP', [I('DROP')])] if rng.random() < 0.33 else [])
        if op == 'copy.set':
            code += [I('DUP'), I('DIP', [I('DROP')])]
        elif op == 'copy.map':
            code += [I('SWAP'), I('DUP'), I('DIP', [I('DROP')]), I('SWAP')]
        elif op == 'set.add' or op == 'set.remove':
            code += [PUSH(T.BOOL, op == 'set.add')] + pushk + [I('UPDATE')]
        elif op == 'set.mem':
            code += [I('DUP'), PUSH(kt, k), I('MEM'), I('DUG', N(2 + nobs))]
            nobs += 1
        elif op in ('map.put', 'map.del'):
            code += [I('SWAP'), PUSH(T.option(vt), ('Some', rng.choice(vals)) if op == 'map.put' else None)] + pushk + [I('UPDATE'), I('SWAP')]
        elif op == 'map.get':
            code += [I('DUP', N(2)), PUSH(kt, k), I('GET'), I('DUG', N(2 + nobs))]
            nobs += 1
        elif op == 'map.mem':
            code += [I('DUP', N(2)), PUSH(kt, k), I('MEM'), I('DUG', N(2 + nobs))]
            nobs += 1
        elif op == 'map.gau':
            code += [I('SWAP'), PUSH(T.option(vt), rng.choice([None, ('Some', rng.choice(vals))])), PUSH(kt, k), I('GET_AND_UPDATE'),
                     I('DUG', N(2 + nobs)), I('SWAP')]
            nobs += 1
        elif op == 'size':
            code += [I('DUP'), I('SIZE'), I('DUP', N(3)), I('SIZE'), I('PAIR'), I('DUG', N(2 + nobs))]
            nobs += 1
        elif op == 'set.iter':
            code += [I('NIL', TY(kt)), I('DUP', N(2)), I('ITER', [I('CONS')]), I('DUG', N(2 + nobs))]
            nobs += 1
        elif op == 'map.iter':
            code += [I('NIL', TY(T.pair(kt, vt))), I('DUP', N(3)), I('ITER', [I('CONS')]), I('DUG', N(2 + nobs))]
            nobs += 1
        elif op == 'map.map':
            code += [I('SWAP'), I('MAP', [I('CDR')] + ([PUSH(vt, 1), I('ADD')] if vt == T.NAT else [])), I('SWAP')]
    return code, ops


def judge_literals(ctx, rng, kt, universe):
    srt = O.sort_unique(kt, universe)
    if len(srt) < 2:
        return
    i = rng.randrange(len(srt) - 1)
    bad = list(srt)
    bad[i], bad[i + 1] = bad[i + 1], bad[i]
    dup = srt[:i + 1] + srt[i:]
    def spell(x, j, why):
        # the second occurrence of a duplicate is written in the other spelling of the same value where the type has one
        if why == 'duplicate-respelled' and j == i + 1:
            if kt == T.SIGNATURE and len(x) == 64:
                from rv.model import base58 as B58
                return {'string': B58.encode(x, 'edsig')}
            return P.render(x, kt, 'optimized')
        return P.render(x, kt, 'readable')
    for lits, why in ((bad, 'unsorted'), (dup, 'duplicate'), (dup, 'duplicate-respelled')):
        for coll in ('set', 'map'):
            t = T.set_(kt) if coll == 'set' else T.map_(kt, T.NAT)
            lit = [spell(x, j, why) for j, x in enumerate(lits)] if coll == 'set' else [{'prim': 'Elt', 'args': [spell(x, j, why), {'int': '0'}]} for j, x in enumerate(lits)]
            it = D.new_interpreter()
            res = it.execute([{'prim': 'PUSH', 'args': [T.to_micheline(t), lit]}])
            ctx.count('bad_literals')
            ctx.case(('lit', T.show(t), repr(lits), why), nontrivial=True)
            if res.error is None:
                ctx.violation('C14|%s-%s-literal-accepted|%s' % (why, coll, kt[0]), repr(lits)[:200],
                              {'code': [{'prim': 'PUSH', 'args': [T.to_micheline(t), lit]}], 'expect': 'reject'})


def judge_python_objects(ctx, kt, universe):
    """Maps and sets built from Python objects (dict / list in any order) are sorted by the Michelson order like any other."""
    from rv.hooks import extract as X
    srt = O.sort_unique(kt, universe)
    from rv.checks.c03 import nested_option
    if len(srt) < 2 or nested_option(kt):      # Python objects of nested options collapse (C12's known finding): not this monitor's matter
        return
    for coll in ('map', 'set'):
        t = T.map_(kt, T.NAT) if coll == 'map' else T.set_(kt)
        lit = [{'prim': 'Elt', 'args': [P.render(x, kt, 'readable'), {'int': str(j)}]} for j, x in enumerate(srt)] if coll == 'map' else [P.render(x, kt, 'readable') for x in srt]
        case = {'code': [{'prim': 'PUSH', 'args': [T.to_micheline(t), lit]}], 'via': 'from_python_object'}
        try:
            cls = D.mk_type(t)
            py = cls.from_micheline_value(lit).to_python_object()
            rev = dict(reversed(list(py.items()))) if coll == 'map' else list(reversed(py))
            ctx.count('collections_from_python_objects')
            ctx.case(('py', T.show(t), repr(srt)), nontrivial=True)
            got = X.value_of(cls.from_python_object(rev))
            bad = unsorted_in(got, t)
            if bad or len(got) != len(srt):
                ctx.violation('C14|unsorted-or-duplicate-after|from_python_object|%s(%s)' % (coll, kt[0]), 'keys %r' % ([g[0] if coll == 'map' else g for g in got],), case)
        except Exception as e:
            ctx.violation('C14|from_python_object-raises|%s(%s)|%s' % (coll, kt[0], type(e).__name__), repr(e)[:200], case)


def key_universes(rng, n):
    out = []
    shapes = [T.NAT, T.STRING, T.pair(T.NAT, T.STRING), T.pair(T.INT, T.pair(T.BOOL, T.BYTES)), T.or_(T.NAT, T.STRING), T.option(T.INT),
              T.pair(T.option(T.NAT), T.or_(T.BOOL, T.STRING)), T.ADDRESS, T.KEY_HASH, T.TIMESTAMP, T.MUTEZ, T.BYTES, T.BOOL, T.KEY, T.SIGNATURE,
              T.CHAIN_ID, T.UNIT, T.option(T.pair(T.STRING, T.INT))]
    # one destination with no entrypoint, entrypoints sorting before and after "default", and a second destination
    kt1 = P.address_from_str('KT1BEqzn5Wx8uJrZNvuS9DVHmLvG9td3fDLi')[0]
    tz1 = P.address_from_str('tz1VSUr8wwNhLAzempoch5d6hLRiTh8Cjcjb')[0]
    fixed = [(kt1, ''), (kt1, 'approve'), (kt1, 'burn'), (kt1, 'transfer'), (kt1, 'deck'), (tz1, '')]
    out.append((T.ADDRESS, O.sort_unique(T.ADDRESS, fixed)))
    out.append((T.pair(T.ADDRESS, T.NAT), O.sort_unique(T.pair(T.ADDRESS, T.NAT), [(a, 1) for a in fixed[:4]])))
    # universes of dozens of keys: collections grow past 9, 10, 11 ... elements, where text order and value order part ways
    out.append((T.NAT, list(range(0, 36))))
    out.append((T.STRING, O.sort_unique(T.STRING, [str(i) for i in range(0, 30)] + ['k%d' % i for i in range(8)])))
    out.append((T.INT, list(range(-18, 18))))
    out.append((T.pair(T.NAT, T.NAT), [(i // 6, i % 6) for i in range(36)]))
    for i in range(n):
        kt = shapes[i % len(shapes)] if i < 2 * len(shapes) else G.gen_type(rng, 2, 'comparable')
        pool = G.comparable_pool(rng, kt, 6)
        uni = O.sort_unique(kt, rng.sample(pool, min(len(pool), rng.randint(3, 5))))
        if any(O.weak(kt, a, b) for a in uni for b in uni if a is not b):
            continue
        out.append((kt, uni))
    return out


def run(ctx):
    if not K.calibrated(ctx):
        return
    rng = ctx.rng
    L_ = ctx.pick(12, 40)
    ctx.rule = ('operation histories of length <= %d (set add/remove/MEM, map put/delete/GET/MEM/GET_AND_UPDATE, SIZE, ITER, MAP) over '
                'universes of 3-5 keys of every comparable shape (composite keys first) and four universes of 36-38 keys with histories of 40-120 operations, from literal or empty collections; lock-step '
                'against the model sorted dictionary after every instruction + strict-sortedness invariant on every set/map in every '
                'snapshot; unsorted and duplicate literals must be rejected; distinct by program; non-trivial = >= 3 primitives' % L_)
    unis = key_universes(rng, ctx.pick(40, 400))
    n = ctx.pick(2400, 120000) // ctx.nshards
    for i in range(n):
        kt, uni = unis[i % 2] if i % 10 == 0 else unis[rng.randrange(len(unis))]      # the two fixed address universes come round regularly
        length = rng.randint(1, L_)
        if i % 15 == 7:                                                                # and so do the four large ones, with long histories
            kt, uni = unis[2 + (i // 15) % 4]
            length = rng.randint(40, 120)
            ctx.count('long_histories_over_large_universes')
        code, ops = history(rng, kt, uni, length)
        ctx.count('histories')
        out = K.run_case(ctx, PID, 'history', code, None, 'values', False, {'ops': ops})
        if out.mon is not None and out.kind in ('agree', 'violation'):
            sorted_invariant(ctx, out, {'code': code})
        if len(ctx.samples) < 3 and len(ops) > 6 and out.kind == 'agree':
            ctx.samples.append({'key_type': T.show(kt), 'operations': ops, 'final_stack': repr(out.model.stack)[:300]})
    for kt, uni in unis[:ctx.pick(20, 200)]:
        judge_literals(ctx, rng, kt, uni)
        judge_python_objects(ctx, kt, uni)
    ctx.require('agree', 200)
    ctx.require('invariant_evaluations', 1000)
    ctx.require('bad_literals', 20)
    for p in ('UPDATE', 'GET_AND_UPDATE', 'MEM', 'GET', 'SIZE', 'ITER', 'MAP'):
        ctx.require('hook_' + p, 10)


def replay(ctx, case):
    if case.get('via') == 'from_python_object':
        push = case['code'][0]['args']
        t = T.from_micheline(push[0])
        keys = [P.parse(x['args'][0] if t[0] == 'map' else x, t[1]) for x in push[1]]
        return judge_python_objects(ctx, t[1], keys)
    if case.get('expect') == 'reject':
        it = D.new_interpreter()
        if it.execute(case['code']).error is None:
            ctx.violation('C14|bad-literal-accepted', 'replay', case)
        return
    out = K.run_case(ctx, PID, 'replay', case['code'], None, 'values', False)
    if out.mon is not None:
        sorted_invariant(ctx, out, case)
