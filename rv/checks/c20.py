"""C20 — tickets are never forged, duplicated, zeroed or merged incorrectly.
(a) lock-step of ticket programs against the reference interpreter (None rules of TICKET / SPLIT_TICKET / JOIN_TICKETS);
(b) conservation checker over the instruction-hook log: per (ticketer, contents) the total amount reachable from the stack
    never grows except through TICKET, no ticket with amount 0 is ever reachable, no ticket object is reachable twice;
(c) DUP of a ticket must be refused."""
from rv.checks import _lock as K
from rv.core import lockstep as L
from rv.gen.programs import I, N, PUSH, TY
from rv.hooks import drive as D
from rv.hooks import instr as H
from rv.model import interp as MI
from rv.model import types as T

LEVEL = 'exploration'
SHARDS = {'quick': 4, 'thorough': 16}
PID = 'C20'
CONTENTS = [(T.NAT, [0, 1, 7]), (T.STRING, ['', 'a', 'gold']), (T.pair(T.NAT, T.STRING), [(1, 'a'), (1, 'b'), (2, 'a')]), (T.UNIT, [()]),
            (T.option(T.INT), [None, ('Some', -1)]), (T.BYTES, [b'', b'\x00']),
            # contents that differ only in how they are nested (None / Some None, Left 0 / Right 0, 0 / "0"-like shapes)
            (T.option(T.option(T.NAT)), [None, ('Some', None), ('Some', ('Some', 0))]), (T.or_(T.NAT, T.NAT), [('L', 0), ('R', 0)]),
            (T.pair(T.option(T.option(T.UNIT)), T.BOOL), [(None, False), (('Some', None), False), (None, True)]), (T.BOOL, [False, True])]
FAIL = lambda msg: [PUSH(T.STRING, msg), I('FAILWITH')]


def tickets_in(t, v, out):
    """Collect (ticketer, contents-repr, amount) of every ticket reachable from a model-style value."""
    p = t[0] if isinstance(t, tuple) else None
    if p == 'ticket':
        out.append((v[0], repr(v[1]), v[2]))
    elif p == 'pair':
        tickets_in(t[1], v[0], out)
        tickets_in(t[2], v[1], out)
    elif p == 'option' and v is not None:
        tickets_in(t[1], v[1], out)
    elif p == 'or':
        tickets_in(t[1] if v[0] == 'L' else t[2], v[1], out)
    elif p == 'list':
        for x in v:
            tickets_in(t[1], x, out)
    elif p == 'map':
        for k, x in v:
            tickets_in(t[2], x, out)


def totals(snapshot):
    out = []
    for t, v in snapshot:
        if t != 'extract-error':
            try:
                tickets_in(t, v, out)
            except Exception:
                pass
    tot = {}
    for tk, c, n in out:
        tot[(tk, c)] = tot.get((tk, c), 0) + n
    return tot, out


def live_ticket_ids(objs, seen=None, dup=None):
    seen = {} if seen is None else seen
    dup = [] if dup is None else dup

    def walk(o):
        prim = getattr(o, 'prim', None)
        if prim == 'ticket':
            if id(o) in seen:
                dup.append(o)
            seen[id(o)] = o
        elif prim == 'pair':
            for x in o.items:
                walk(x)
        elif prim == 'option' and o.item is not None:
            walk(o.item)
        elif prim == 'or':
            for x in o.items:
                if hasattr(x, 'prim'):
                    walk(x)
        elif prim in ('list', 'set'):
            for x in o.items:
                walk(x)
        elif prim == 'map':
            for k, x in o.items:
                walk(x)
    for o in objs:
        walk(o)
    return dup


def conservation(ctx, mon, case):
    """Offline checker over the hook log (programs here have no lambdas: one frame).
    in = out + held: while an ITER/MAP is running, the elements not yet visited are held by the iterator and are not on the
    stack, so the step-wise rule (no growth except by TICKET) is applied only to programs without ITER/MAP; the bound
    'on the stack <= minted so far' is applied to every program."""
    prev = None
    holds = any(p in mon.prims for p in ('ITER', 'MAP'))
    minted = {}
    for idx, (prim, snap) in enumerate(mon.events):
        tot, tickets = totals(snap or [])
        ctx.count('conservation_steps')
        if prim == 'TICKET' and snap:
            t0, v0 = snap[0] if len(snap[0]) == 2 else (None, None)
            # the hook snapshot lists the whole frame; the TICKET result sits at the current top = first non-protected slot;
            # recompute minted as the growth of the stack total over this instruction
            for key, n in tot.items():
                grow = n - (prev or {}).get(key, 0)
                if grow > 0:
                    minted[key] = minted.get(key, 0) + grow
        for key, n in tot.items():
            if n > minted.get(key, 0):
                ctx.violation('C20|more-on-stack-than-minted|after-' + prim, '%r: %d on the stack, %d minted' % (key[1], n, minted.get(key, 0)), case)
                return
        for tk, c, n in tickets:
            if n <= 0:
                ctx.violation('C20|zero-amount-ticket|after-' + prim, 'ticket %r with amount %d after %s' % (c, n, prim), case)
                return
        if prev is not None and not holds:
            for key, n in tot.items():
                before = prev.get(key, 0)
                if n > before and prim != 'TICKET':
                    ctx.violation('C20|amount-created-by|' + prim, '%s: total of %r grew from %d to %d' % (prim, key[1], before, n), case)
                    return
        prev = tot
        if mon.keep_objects and idx < len(mon.objects):
            dup = live_ticket_ids(mon.objects[idx])
            if dup:
                ctx.violation('C20|ticket-object-reachable-twice|after-' + prim, 'after %s' % prim, case)
                return


class Gen:
    """Incremental generator with model feedback: after each chunk the model tells the current stack."""

    def __init__(self, rng):
        self.rng = rng

    def stack(self, code):
        r = MI.run(code, [], None, record=False)
        return r

    def program(self, length):
        rng = self.rng
        code = [PUSH(T.STRING, 'bottom')]
        for _ in range(length):
            r = self.stack(code)
            if r.kind != 'ok':
                break
            st = r.stack
            top = st[0][0] if st else None
            snd = st[1][0] if len(st) > 1 else None
            opts = ['mint', 'mint']
            if top and top[0] == 'ticket':
                opts += ['read', 'split', 'split', 'split-raw', 'wrap', 'some', 'tolist', 'left', 'drop', 'swap']
                if snd and snd == top:
                    opts += ['join', 'join', 'join-raw']
                if snd and snd[0] == 'ticket' and snd != top:
                    opts += ['swap']
                if snd and snd == T.list_(top):
                    opts += ['cons', 'cons']
            if top and top[0] == 'list' and top[1][0] == 'ticket':
                opts += ['iter-sum', 'ifcons']
            if top and top[0] == 'pair' and top[1][0] == 'ticket' and top[1] == top[2]:
                opts += ['join-pair', 'unpair']
            if top and top[0] == 'option' and top[1][0] == 'ticket':
                opts += ['unopt', 'unopt']
            if top and top[0] == 'option' and top[1][0] == 'pair':
                opts += ['unopt-pair']
            if top and top[0] == 'or':
                opts += ['ifleft']
            if len(st) > 2:
                opts += ['dig', 'dug', 'dip-mint']
            op = rng.choice(opts)
            if op == 'mint' or op == 'dip-mint':
                ct, vals = rng.choice(CONTENTS)
                if top and top[0] == 'ticket' and rng.random() < 0.5:
                    ct, vals = next(c for c in CONTENTS if c[0] == top[1])   # same contents type as the ticket on top: joinable
                chunk = [PUSH(T.NAT, rng.choice([0, 1, 2, 5, 10, 2 ** 64])), PUSH(ct, rng.choice(vals)), I('TICKET')]
                chunk += [I('IF_NONE', FAIL('zero ticket'), [])] if rng.random() < 0.85 else []
                code += [I('DIP', chunk)] if op == 'dip-mint' else chunk
            elif op == 'read':
                code += [I('READ_TICKET'), I('SWAP')] if rng.random() < 0.5 else [I('READ_TICKET'), I('DROP')]
            elif op in ('split', 'split-raw'):
                n = st[0][1][2]
                a, b = rng.choice([(1, n - 1), (n // 2, n - n // 2), (0, n), (n, 0), (n, 1), (0, 0), (n - 1, 1), (1, 1), (n + 1, 0)])
                a, b = max(a, 0), max(b, 0)
                code += [PUSH(T.pair(T.NAT, T.NAT), (a, b)), I('SWAP'), I('SPLIT_TICKET')]
                if op == 'split':
                    code += [I('IF_NONE', FAIL('bad split'), [I('UNPAIR')])]
            elif op in ('join', 'join-raw'):
                code += [I('PAIR'), I('JOIN_TICKETS')]
                if op == 'join':
                    code += [I('IF_NONE', FAIL('bad join'), [])]
            elif op == 'join-pair':
                code += [I('JOIN_TICKETS')]
            elif op == 'unpair':
                code += [I('UNPAIR')]
            elif op == 'wrap':
                code += [PUSH(T.NAT, 1), I('PAIR'), I('CDR')] if rng.random() < 0.5 else [PUSH(T.NAT, 1), I('SWAP'), I('PAIR'), I('UNPAIR'), I('DIP', [I('DROP')])]
            elif op == 'some':
                code += [I('SOME')]
            elif op == 'unopt':
                code += [I('IF_NONE', FAIL('none'), [])]
            elif op == 'unopt-pair':
                code += [I('IF_NONE', FAIL('none'), [I('UNPAIR')])]
            elif op == 'tolist':
                code += [I('NIL', TY(top)), I('SWAP'), I('CONS')]
            elif op == 'cons':
                code += [I('CONS')]
            elif op == 'iter-sum':
                code += [PUSH(T.NAT, 0), I('SWAP'), I('ITER', [I('READ_TICKET'), I('GET', N(4)), I('DIP', [I('DROP')]), I('ADD')])]
            elif op == 'ifcons':
                code += [I('IF_CONS', [I('DIP', [I('DROP')])], FAIL('empty'))]
            elif op == 'left':
                code += [I('LEFT', TY(T.NAT))] if rng.random() < 0.5 else [I('RIGHT', TY(T.NAT))]
            elif op == 'ifleft':
                if top[1][0] == 'ticket' and top[2] == T.NAT:
                    code += [I('IF_LEFT', [], [I('DROP'), PUSH(T.STRING, 'r'), I('FAILWITH')])]
                elif top[2][0] == 'ticket' and top[1] == T.NAT:
                    code += [I('IF_LEFT', [I('DROP'), PUSH(T.STRING, 'l'), I('FAILWITH')], [])]
                else:
                    code += [I('DROP')]
            elif op == 'drop':
                code += [I('DROP')]
            elif op == 'swap':
                code += [I('SWAP')]
            elif op == 'dig':
                code += [I('DIG', N(rng.randint(1, len(st) - 1)))]
            elif op == 'dug':
                code += [I('DUG', N(rng.randint(1, len(st) - 1)))]
        return code


def dup_must_fail(ctx):
    tk = T.ticket(T.STRING)
    mint_in_body = [PUSH(T.NAT, 5), PUSH(T.STRING, 'tkt'), I('TICKET'), I('IF_NONE', FAIL('zero'), [])]
    cases = [('DUP', [I('DUP')]), ('DUP 2', [PUSH(T.NAT, 1), I('DUP', N(2))]), ('DUP in pair', [PUSH(T.NAT, 1), I('PAIR'), I('DUP')]),
             ('DUP in option', [I('SOME'), I('DUP')]), ('DUP in list', [I('NIL', TY(tk)), I('SWAP'), I('CONS'), I('DUP')]),
             ('DUP in or', [I('LEFT', TY(T.NAT)), I('DUP')]),
             ('DUP in map', [I('SOME'), I('EMPTY_MAP', TY(T.NAT), TY(tk)), I('SWAP'), PUSH(T.NAT, 1), I('UPDATE'), I('DUP')]),
             ('DUP in big_map', [I('SOME'), I('EMPTY_BIG_MAP', TY(T.NAT), TY(tk)), I('SWAP'), PUSH(T.NAT, 1), I('UPDATE'), I('DUP')]),
             ('DUP in pair in list', [PUSH(T.NAT, 1), I('PAIR'), I('NIL', TY(T.pair(T.NAT, tk))), I('SWAP'), I('CONS'), I('DUP')]),
             # collections whose elements BECAME tickets through MAP
             ('DUP of a map made of tickets by MAP', [I('DROP'), PUSH(T.map_(T.NAT, T.NAT), [(1, 1), (2, 2)]), I('MAP', [I('DROP')] + mint_in_body), I('DUP')]),
             ('DUP of a list made of tickets by MAP', [I('DROP'), PUSH(T.list_(T.NAT), [1, 2]), I('MAP', [I('DROP')] + mint_in_body), I('DUP')]),
             ('DUP 2 of a map made of tickets by MAP', [I('DROP'), PUSH(T.map_(T.NAT, T.NAT), [(1, 1)]), I('MAP', [I('DROP')] + mint_in_body), PUSH(T.NAT, 0), I('DUP', N(2))])]
    # a ticket put INTO an existing structure: comb UPDATE k, PAIR n, GET_AND_UPDATE — the structure's type changes under it
    for w in (2, 3, 4):
        for k in range(0, 2 * w - 1):
            build = [PUSH(T.NAT, j) for j in range(w)] + [I('PAIR', N(w)) if w > 2 else I('PAIR')]
            cases.append(('DUP after UPDATE %d on a comb of %d' % (k, w), build + [I('SWAP'), I('UPDATE', N(k)), I('DUP')]))
            cases.append(('DUP 2 after UPDATE %d on a comb of %d' % (k, w), build + [I('SWAP'), I('UPDATE', N(k)), PUSH(T.NAT, 9), I('DUP', N(2))]))
    cases.append(('DUP after PAIR 3', [PUSH(T.NAT, 1), PUSH(T.NAT, 2), I('PAIR', N(3)), I('DUP')]))
    cases.append(('DUP after PAIR 3 (ticket last)', [PUSH(T.NAT, 1), I('SWAP'), PUSH(T.NAT, 2), I('DIG', N(2)), I('DIG', N(2)), I('PAIR', N(3)), I('DUP')]))
    cases.append(('DUP of a map after GET_AND_UPDATE', [I('SOME'), I('EMPTY_MAP', TY(T.NAT), TY(tk)), I('SWAP'), PUSH(T.NAT, 1), I('GET_AND_UPDATE'), I('DROP'), I('DUP')]))
    cases.append(('DUP of the rest after UNPAIR', [PUSH(T.NAT, 1), PUSH(T.NAT, 2), I('PAIR', N(3)), I('UNPAIR'), I('DROP'), I('DUP')]))
    cases.append(('DUP of GET 2 of a comb', [PUSH(T.NAT, 1), PUSH(T.NAT, 2), I('PAIR', N(3)), I('GET', N(2)), I('DUP')]))
    # DUP n inside DIP k: the slot that is copied is counted from the top of the unprotected part
    for k in (1, 2):
        for n in (1, 2, 3):
            pad_above = [PUSH(T.NAT, 100 + j) for j in range(k + n - 1)]
            cases.append(('DUP %d inside DIP %d' % (n, k), pad_above + [I('DIP', N(k), [I('DUP', N(n))])]))
    for label, tail in cases:
        code = [PUSH(T.NAT, 5), PUSH(T.STRING, 'gold'), I('TICKET'), I('IF_NONE', FAIL('zero'), [])] + tail
        it = D.new_interpreter()
        with H.monitoring(keep_objects=True) as mon:
            res = it.execute(code)
        ctx.count('dup_attempts')
        ctx.case(K.code_key(code, None), nontrivial=True)
        case = {'code': code, 'expect': 'fail'}
        if res.error is None:
            ctx.violation('C20|ticket-duplicated-by|' + label, 'the program finished; stack holds the ticket twice', case)
        else:
            conservation(ctx, mon, case)


def run(ctx):
    if not K.calibrated(ctx):
        return
    rng = ctx.rng
    ctx.rule = ('ticket programs built incrementally with model feedback: TICKET with amounts {0,1,2,5,10,2^64} and contents of ten '
                'types (incl. None / Some None, Left 0 / Right 0), every ordered pair of contents joined, SPLIT_TICKET over (a,b) incl. zero parts / sums that do not match / exact splits, JOIN_TICKETS of equal and '
                'different contents, READ_TICKET, plumbing through pair/option/or/list/DIP/DIG/DUG, ITER over ticket lists; lock-step '
                'vs the reference + conservation checker on every hook snapshot (no growth except by TICKET, no zero amount, no '
                'object reachable twice); DUP of tickets must be refused; distinct by program; non-trivial = >= 3 primitives')
    g = Gen(rng)
    n = ctx.pick(1600, 100000) // ctx.nshards
    for i in range(n):
        code = g.program(rng.randint(2, ctx.pick(10, 16)))
        case = {'code': code}
        out = L.run_both(code, None, mode='both', keep_objects=True)
        ctx.case(K.code_key(code, None), nontrivial=len(K.prims_of(code)) >= 3)
        ctx.count('programs')
        if out.kind in ('unsupported', 'inconclusive'):
            ctx.count('model_' + out.kind)
            continue
        for p, c in out.mon.prims.items():
            ctx.counters['hook_' + p] += c
        ctx.count('model_outcome_' + out.model.kind)
        if out.kind == 'violation':
            ctx.violation('C20|%s' % out.sig, out.detail, case)
        else:
            ctx.count('agree')
            if out.model.kind == 'ok' and out.model.stack and out.model.stack[0][1] is None:
                ctx.count('agreed_None_results')
        conservation(ctx, out.mon, case)
        if len(ctx.samples) < 3 and out.kind == 'agree' and len(code) > 12:
            ctx.samples.append({'program': code, 'outcome': out.model.kind})
    # every ordered pair of contents of every contents type: mint both, JOIN_TICKETS, lock-step
    j = 0
    for ct, vals in CONTENTS:
        for a in vals:
            for b in vals:
                j += 1
                if not ctx.mine(j):
                    continue
                mint = lambda v, n: [PUSH(T.NAT, n), PUSH(ct, v), I('TICKET'), I('IF_NONE', FAIL('zero ticket'), [])]
                code = mint(a, 3) + mint(b, 4) + [I('PAIR'), I('JOIN_TICKETS')]
                out = L.run_both(code, None, mode='both', keep_objects=True)
                ctx.case(K.code_key(code, None), nontrivial=True)
                ctx.count('join_sweep_programs')
                if out.kind == 'violation':
                    ctx.violation('C20|%s' % out.sig, out.detail, {'code': code})
                elif out.kind == 'agree':
                    ctx.count('agree')
                    conservation(ctx, out.mon, {'code': code})
    dup_must_fail(ctx)
    ctx.require('join_sweep_programs', 10)
    ctx.require('agree', 200)
    ctx.require('conservation_steps', 2000)
    ctx.require('dup_attempts', 3)
    for p in ('TICKET', 'SPLIT_TICKET', 'JOIN_TICKETS', 'READ_TICKET'):
        ctx.require('hook_' + p, 20)


def replay(ctx, case):
    if case.get('expect') == 'fail':
        it = D.new_interpreter()
        if it.execute(case['code']).error is None:
            ctx.violation('C20|ticket-duplicated-by|replay', '', case)
        return
    out = L.run_both(case['code'], None, mode='both', keep_objects=True)
    if out.kind == 'violation':
        ctx.violation('C20|%s' % out.sig, out.detail, case)
    if out.mon is not None:
        conservation(ctx, out.mon, case)
