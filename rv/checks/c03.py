"""C03 — COMPARE and ordered collections follow the Tezos total order.
Comparison monitor (REPL: PUSH a; PUSH b; COMPARE) on all ordered pairs of adversarial pools, order laws on all triples,
set/map literals and UPDATE-built collections against the model order."""
import itertools

from rv.gen import typed as G
from rv.hooks import drive as D
from rv.hooks import extract as X
from rv.model import base58 as B
from rv.model import order as O
from rv.model import pack as P
from rv.model import types as T

LEVEL = 'exploration'
SHARDS = {'quick': 4, 'thorough': 16}


def pt_compare(t, a, b):
    it = D.new_interpreter()
    res = it.execute([D.push(t, b), D.push(t, a), {'prim': 'COMPARE'}])
    if res.error is not None:
        return ('error', res.error)
    top = it.stack.items[0]
    if top.prim != 'int':
        return ('error', 'COMPARE left a %s' % top.prim)
    return ('ok', top.value)


def shape_sig(t):
    return T.show(t) if T.depth(t) <= 2 else t[0] + '(...)'


def leafdiff(t, a, b):
    """Name of the leaf type at which a and b first differ (for signatures)."""
    p = t[0]
    if p == 'pair':
        if O.compare(t[1], a[0], b[0]) != 0:
            return 'pair.0>' + leafdiff(t[1], a[0], b[0])
        return 'pair.1>' + leafdiff(t[2], a[1], b[1])
    if p == 'option':
        if a is None or b is None:
            return 'option.None-vs-Some'
        return leafdiff(t[1], a[1], b[1])
    if p == 'or':
        if a[0] != b[0]:
            return 'or.Left-vs-Right'
        return leafdiff(t[1] if a[0] == 'L' else t[2], a[1], b[1])
    if p == 'address':
        if a[0] != b[0]:
            ka, kb = sorted([kind(a[0]), kind(b[0])])
            return 'address.%s-vs-%s%s' % (ka, kb, '+ep' if (a[1] or b[1]) else '')
        return 'address.entrypoint'
    if p == 'key':
        return 'key.%s-vs-%s' % tuple(sorted([P.KEY_PREFIX[a[0]], P.KEY_PREFIX[b[0]]]))
    if p == 'signature':
        return 'signature.%d-vs-%d' % tuple(sorted([len(a), len(b)]))
    if p == 'key_hash':
        return 'key_hash.%s-vs-%s' % tuple(sorted([P.KH_PREFIX[a[0]], P.KH_PREFIX[b[0]]]))
    return p


def kind(a22):
    return {0: 'implicit', 1: 'originated', 2: 'txrollup', 3: 'smartrollup'}[a22[0]]


def judge_pool(ctx, t, pool, laws=True):
    n = len(pool)
    table = [[None] * n for _ in range(n)]
    tsig = shape_sig(t)
    for i in range(n):
        for j in range(n):
            a, b = pool[i], pool[j]
            want = O.compare(t, a, b)
            wk = O.weak(t, a, b)
            st, got = pt_compare(t, a, b)
            ctx.count('compare_runs')
            ctx.case((T.show(t), repr(a), repr(b)), nontrivial=(i != j))
            case = {'type': T.to_micheline(t), 'a': P.render(a, t, 'readable'), 'b': P.render(b, t, 'readable')}
            if st != 'ok':
                ctx.violation('C03|COMPARE-fails|%s|%s' % (t[0], leafdiff(t, a, b) if want else 'equal'), repr(got)[:300], case)
                continue
            table[i][j] = got
            if got not in (-1, 0, 1):
                ctx.violation('C03|COMPARE-range|' + tsig, 'returned %r' % got, case)
            elif wk:
                ctx.count('weak_sign_not_demanded')
            elif got != want:
                ctx.violation('C03|COMPARE-sign|%s|%s' % (t[0], leafdiff(t, a, b) if want else 'equal'),
                              'COMPARE %s %s = %d, reference %d' % (case['a'], case['b'], got, want), case)
    if not laws:
        return
    # order laws on everything observed (also covers the weak sub-cases)
    for i in range(n):
        for j in range(n):
            if table[i][j] is None or table[j][i] is None:
                continue
            if table[i][j] != -table[j][i]:
                ctx.violation('C03|law-antisymmetry|' + leafdiff(t, pool[i], pool[j]) if pool[i] != pool[j] else 'C03|law-reflexive',
                              '%r vs %r: %d and %d' % (pool[i], pool[j], table[i][j], table[j][i]),
                              {'type': T.to_micheline(t), 'a': P.render(pool[i], t, 'readable'), 'b': P.render(pool[j], t, 'readable')})
            if (table[i][j] == 0) != (pool[i] == pool[j]):
                ctx.violation('C03|law-zero-iff-equal|' + leafdiff(t, pool[i], pool[j]), '%r vs %r: %d' % (pool[i], pool[j], table[i][j]),
                              {'type': T.to_micheline(t), 'a': P.render(pool[i], t, 'readable'), 'b': P.render(pool[j], t, 'readable')})
    for i, j, k in itertools.product(range(n), repeat=3):
        ctx.count('triples_checked')
        if None in (table[i][j], table[j][k], table[i][k]):
            continue
        if table[i][j] <= 0 and table[j][k] <= 0 and table[i][k] > 0:
            ctx.violation('C03|law-transitivity|' + tsig, '%r <= %r <= %r but first > third' % (pool[i], pool[j], pool[k]),
                          {'type': T.to_micheline(t), 'a': P.render(pool[i], t, 'readable'), 'b': P.render(pool[k], t, 'readable'),
                           'mid': P.render(pool[j], t, 'readable')})


def nested_option(t, inside=False):
    if t[0] == 'option':
        return inside or any(nested_option(a, True) for a in t[1:])
    return any(nested_option(a, False if t[0] not in ('option',) else inside) for a in t[1:])


def judge_collections(ctx, rng, t, pool):
    """Literals: sorted accepted, unsorted/duplicate rejected; UPDATE-built set equals the model order."""
    srt = O.sort_unique(t, pool)
    if any(O.weak(t, a, b) for a, b in zip(srt, srt[1:])):
        ctx.count('collections_skipped_weak')
        return
    st = T.set_(t)
    case = {'type': T.to_micheline(st), 'elements': [P.render(x, t, 'readable') for x in srt]}
    it = D.new_interpreter()
    res = it.execute([{'prim': 'PUSH', 'args': [T.to_micheline(st), [P.render(x, t, 'readable') for x in srt]]}])
    ctx.count('set_literals')
    ctx.case(('set-lit', T.show(t), repr(srt)), nontrivial=len(srt) > 1)
    if res.error is not None:
        first_bad = next((leafdiff(t, a, b) for a, b in zip(srt, srt[1:])), '?')
        ctx.violation('C03|sorted-set-literal-rejected|%s' % t[0], repr(res.error)[:200], case)
    else:
        try:
            got = X.value_of(it.stack.items[0])
            if got != srt:
                ctx.violation('C03|set-literal-order|' + t[0], 'got %r' % (got,), case)
        except Exception as e:
            ctx.violation('C03|extract|' + t[0], repr(e)[:200], case)
    if len(srt) >= 2:
        i = rng.randrange(len(srt) - 1)
        bad = list(srt)
        bad[i], bad[i + 1] = bad[i + 1], bad[i]
        for lits, why in ((bad, 'unsorted'), (srt[:i + 1] + srt[i:], 'duplicate')):
            it = D.new_interpreter()
            res = it.execute([{'prim': 'PUSH', 'args': [T.to_micheline(st), [P.render(x, t, 'readable') for x in lits]]}])
            ctx.count('bad_literals')
            ctx.case(('set-bad', T.show(t), repr(lits)), nontrivial=True)
            if res.error is None:
                ctx.violation('C03|%s-set-literal-accepted|%s|%s' % (why, t[0], leafdiff(t, srt[i], srt[i + 1])), 'elements %r' % (lits,),
                              {'type': T.to_micheline(st), 'elements': [P.render(x, t, 'readable') for x in lits]})
        # map literal with unsorted keys
        mt = T.map_(t, T.UNIT)
        it = D.new_interpreter()
        res = it.execute([{'prim': 'PUSH', 'args': [T.to_micheline(mt), [{'prim': 'Elt', 'args': [P.render(x, t, 'readable'), {'prim': 'Unit'}]} for x in bad]]}])
        ctx.count('bad_literals')
        if res.error is None:
            ctx.violation('C03|unsorted-map-literal-accepted|%s|%s' % (t[0], leafdiff(t, srt[i], srt[i + 1])), 'keys %r' % (bad,),
                          {'type': T.to_micheline(mt), 'elements': [P.render(x, t, 'readable') for x in bad]})
    # build by UPDATE in random order, with duplicates
    order = list(pool) + rng.sample(pool, min(2, len(pool)))
    rng.shuffle(order)
    code = [{'prim': 'EMPTY_SET', 'args': [T.to_micheline(t)]}]
    for x in order:
        code += [{'prim': 'PUSH', 'args': [{'prim': 'bool'}, {'prim': 'True'}]}, D.push(t, x), {'prim': 'UPDATE'}]
    it = D.new_interpreter()
    res = it.execute(code)
    ctx.count('update_built_sets')
    ctx.case(('set-upd', T.show(t), repr(order)), nontrivial=len(srt) > 1)
    case = {'type': T.to_micheline(st), 'elements': [P.render(x, t, 'readable') for x in order], 'via': 'UPDATE'}
    if res.error is not None:
        return ctx.violation('C03|set-UPDATE-fails|' + t[0], repr(res.error)[:200], case)
    try:
        got = X.value_of(it.stack.items[0])
    except Exception as e:
        return ctx.violation('C03|extract|' + t[0], repr(e)[:200], case)
    if got != srt:
        ctx.violation('C03|set-UPDATE-order-or-dedup|' + t[0], 'got %r want %r' % (got, srt), case)
    # same keys through a map
    code = [{'prim': 'EMPTY_MAP', 'args': [T.to_micheline(t), {'prim': 'nat'}]}]
    for n_, x in enumerate(order):
        code += [{'prim': 'PUSH', 'args': [{'prim': 'option', 'args': [{'prim': 'nat'}]}, {'prim': 'Some', 'args': [{'int': str(n_)}]}]}, D.push(t, x), {'prim': 'UPDATE'}]
    it = D.new_interpreter()
    res = it.execute(code)
    ctx.count('update_built_maps')
    if res.error is not None:
        return ctx.violation('C03|map-UPDATE-fails|' + t[0], repr(res.error)[:200], case)
    try:
        got = [k for k, _ in X.value_of(it.stack.items[0])]
    except Exception as e:
        return ctx.violation('C03|extract|' + t[0], repr(e)[:200], case)
    if got != srt:
        ctx.violation('C03|map-UPDATE-key-order-or-dedup|' + t[0], 'got %r want %r' % (got, srt), case)
    # the same map given as a Python dict whose insertion order is the reverse of the key order: the Michelson order decides
    # (not for keys with an option inside an option: their Python objects cannot tell None from Some None - C12's known finding)
    if len(srt) >= 2 and not nested_option(t):
        try:
            mt = T.map_(t, T.NAT)
            mcls = D.mk_type(mt)
            mobj = mcls.from_micheline_value([{'prim': 'Elt', 'args': [P.render(x, t, 'readable'), {'int': str(j)}]} for j, x in enumerate(srt)])
            py = mobj.to_python_object()
            rev = dict(reversed(list(py.items())))
            ctx.count('maps_from_python_dicts')
            back = mcls.from_python_object(rev)
            got = [k for k, _ in X.value_of(back)]
            if got != srt:
                ctx.violation('C03|map-from-python-dict-key-order|' + t[0], 'dict %r -> keys in the order %r, want %r' % (list(rev)[:6], got, srt),
                              {'type': T.to_micheline(mt), 'elements': [P.render(x, t, 'readable') for x in srt], 'via': 'from_python_object'})
        except Exception as e:
            ctx.violation('C03|map-from-python-dict-raises|%s|%s' % (t[0], type(e).__name__), repr(e)[:200],
                          {'type': T.to_micheline(T.map_(t, T.NAT)), 'elements': [P.render(x, t, 'readable') for x in srt], 'via': 'from_python_object'})
    # and through a big_map; the history ends with overwrites of the least key and of a middle key (no fresh key afterwards)
    order2 = order + [srt[0]] + ([srt[len(srt) // 2]] if len(srt) > 2 else [])
    code = [{'prim': 'EMPTY_BIG_MAP', 'args': [T.to_micheline(t), {'prim': 'nat'}]}]
    for n_, x in enumerate(order2):
        code += [{'prim': 'PUSH', 'args': [{'prim': 'option', 'args': [{'prim': 'nat'}]}, {'prim': 'Some', 'args': [{'int': str(n_)}]}]}, D.push(t, x), {'prim': 'UPDATE'}]
    it = D.new_interpreter()
    res = it.execute(code)
    ctx.count('update_built_big_maps')
    case = dict(case, elements=[P.render(x, t, 'readable') for x in order2], via='UPDATE on a big_map')
    if res.error is not None:
        return ctx.violation('C03|big_map-UPDATE-fails|' + t[0], repr(res.error)[:200], case)
    try:
        got = [k for k, _ in X.value_of(it.stack.items[0])[2]]
    except Exception as e:
        return ctx.violation('C03|extract|' + t[0], repr(e)[:200], case)
    if got != srt:
        ctx.violation('C03|big_map-UPDATE-key-order-or-dedup|' + t[0], 'pending entries in the order %r, want %r' % (got, srt), case)


def run(ctx):
    rng = ctx.rng
    D.patch_parser_passthrough()
    ctx.rule = ('every comparable leaf type with its full adversarial pool, every depth-1 shape (option/pair/or over all leaf '
                'types; thorough: depth 2 sample, depth 3 sample): all ordered pairs through PUSH;PUSH;COMPARE against the model '
                'order, total-order laws on all triples of observed results; set/map literals (sorted accepted, unsorted and '
                'duplicate rejected) and UPDATE-built sets/maps against the model order; distinct by (type, a, b); '
                'non-trivial = a and b are different pool entries')
    leaves = [(l,) for l in G.COMPARABLE_LEAVES]
    types = list(leaves)
    d1 = [T.option(a) for a in leaves] + [T.pair(a, b) for a in leaves for b in leaves] + [T.or_(a, b) for a in leaves for b in leaves]
    if ctx.quick:
        types += [T.option(a) for a in leaves] + rng.sample([x for x in d1 if x[0] != 'option'], 40)
    else:
        types += d1
    extra = ctx.pick(30, 400)
    for _ in range(extra):
        types.append(G.gen_type(rng, rng.choice([2, 2, 3]), 'comparable'))
    types.append(T.pair(T.INT, T.NAT, T.STRING))
    types.append(T.pair(T.pair(T.INT, T.INT), T.INT))
    # enumerations: unions whose leaves are all unit, nested in every shape, and their neighbours
    U = T.UNIT
    enums = [T.or_(U, U), T.or_(T.or_(U, U), U), T.or_(U, T.or_(U, U)), T.or_(T.or_(U, U), T.or_(U, U)), T.or_(T.or_(T.or_(U, U), U), T.or_(U, T.or_(U, U))),
             T.option(T.or_(U, U)), T.or_(T.option(U), U), T.pair(T.or_(U, U), T.or_(T.or_(U, U), U)), T.or_(T.or_(U, T.NAT), T.or_(T.BOOL, U)), T.option(T.option(U))]
    types = types[:3] + enums + types[3:]
    for i, t in enumerate(types):
        if not ctx.mine(i):
            continue
        full = G.comparable_pool(rng, t, 6)
        cap = 19 if len(t) == 1 else ctx.pick(7, 9)
        pool = full if len(full) <= cap else G._thin(rng, full, cap)
        judge_pool(ctx, t, pool)
        ctx.remember(judge_pool, ctx, t, pool, limit=12)
        judge_collections(ctx, rng, t, pool if len(pool) <= 8 else G._thin(rng, pool, 8))
        if len(ctx.samples) < 4 and T.depth(t) == 2:
            ctx.samples.append({'type': T.show(t), 'pool': [P.render(x, t, 'readable') for x in pool[:4]]})
    # keys that real maps, sets and big maps use (mainnet corpus of the repository tests)
    from rv.gen import corpus as C
    for j, (t, pool) in enumerate(sorted(C.key_pools(ctx.pick(10, 14)).items())):
        if ctx.mine(j):
            ctx.count('corpus_key_pools')
            judge_pool(ctx, t, pool)
            judge_collections(ctx, rng, t, pool[:8])
    # signature spelled two ways, same bytes: equal
    if ctx.mine(0):
        raw = bytes(range(64))
        a, b = B.encode(raw, 'edsig'), B.encode(raw, 'sig')
        it = D.new_interpreter()
        res = it.execute([{'prim': 'PUSH', 'args': [{'prim': 'signature'}, {'string': a}]}, {'prim': 'PUSH', 'args': [{'prim': 'signature'}, {'string': b}]}, {'prim': 'COMPARE'}])
        ctx.count('compare_runs')
        if res.error is not None or it.stack.items[0].value != 0:
            ctx.violation('C03|COMPARE-sign|signature|same-bytes-different-spelling', 'edsig vs sig spelling of the same 64 bytes: %r' % (res.error or it.stack.items[0].value,),
                          {'type': {'prim': 'signature'}, 'a': {'string': a}, 'b': {'string': b}})
    ctx.run_again()
    ctx.require('compare_runs', 500)
    ctx.require('triples_checked', 500)
    ctx.require('set_literals', 10)
    ctx.require('bad_literals', 10)
    ctx.require('update_built_sets', 10)


def replay(ctx, case):
    D.patch_parser_passthrough()
    t = T.from_micheline(case['type'])
    if 'a' in case:
        if t[0] in ('set', 'map'):
            return
        try:
            a, b = P.parse(case['a'], t), P.parse(case['b'], t)
        except Exception:
            return
        pool = [a, b] + ([P.parse(case['mid'], t)] if 'mid' in case else [])
        judge_pool(ctx, t, pool)
    elif 'elements' in case:
        et = t[1]
        pool = O.sort_unique(et, [P.parse(x, et) for x in case['elements']])
        judge_collections(ctx, ctx.rng, et, pool)
