"""C08 — key import, export and address derivation are consistent."""
from rv.hooks import drive as D
from rv.model import base58 as B
from rv.model import bip39
from rv.model import ecc as E
from rv.checks.c07 import CNAME, gen_secret

LEVEL = 'exploration'
SHARDS = {'quick': 8, 'thorough': 16}
TIMEOUT = {'quick': 900, 'thorough': 7200}
PASSPHRASES = ['x', 'correct horse battery staple', 'pässwörd-€', 'p' * 1000, b'\x00\x01bytes', ' ', '0', 'cafe', '1234', '0xab', 'deadbeef', 'ABCDEF']


def judge_key(ctx, rng, curve, secret, n_pass=1):
    from pytezos.crypto.key import Key
    cn = CNAME[curve]
    case = {'curve': curve.decode(), 'secret': secret.hex()}
    ctx.case((cn, secret), nontrivial=True)
    try:
        key = Key.from_secret_exponent(secret, curve)
    except Exception as e:
        return ctx.violation('C08|from_secret_exponent-raises|' + cn, repr(e)[:200], case)
    want_pub = E.public_point(curve, secret)
    ctx.count('public_key_derivations')
    if key.public_point != want_pub:
        return ctx.violation('C08|public-key-differs|' + cn, 'pytezos=%s reference=%s' % (key.public_point.hex(), want_pub.hex()), case)
    want_pk = B.encode(want_pub, curve.decode() + 'pk')
    if key.public_key() != want_pk:
        ctx.violation('C08|public-key-encoding|' + cn, '%s vs %s' % (key.public_key(), want_pk), case)
    want_pkh = B.encode(E.blake2b_160(want_pub), E.PKH_PREFIX[curve])
    ctx.count('pkh_checks')
    if key.public_key_hash() != want_pkh:
        ctx.violation('C08|public-key-hash|' + cn, '%s vs %s' % (key.public_key_hash(), want_pkh), case)
    # HASH_KEY instruction
    it = D.new_interpreter()
    res = it.execute([{'prim': 'PUSH', 'args': [{'prim': 'key'}, {'string': want_pk}]}, {'prim': 'HASH_KEY'}])
    ctx.count('HASH_KEY_runs')
    if res.error is not None:
        ctx.violation('C08|HASH_KEY-fails|' + cn, repr(res.error)[:200], case)
    elif it.stack.items[0].value != want_pkh:
        ctx.violation('C08|HASH_KEY-differs|' + cn, '%s vs %s' % (it.stack.items[0].value, want_pkh), case)
    # public key import
    try:
        pubonly = Key.from_encoded_key(want_pk)
        if pubonly.public_point != want_pub or pubonly.public_key_hash() != want_pkh or pubonly.is_secret:
            ctx.violation('C08|public-import-differs|' + cn, pubonly.public_key(), case)
    except Exception as e:
        ctx.violation('C08|public-import-raises|' + cn, repr(e)[:200], case)
    # plain export / import
    forms = [('plain', {})]
    if curve == b'ed':
        forms.append(('plain-64-byte', {'ed25519_seed': False}))
    for name, kw in forms:
        ctx.count('export_import_roundtrips')
        try:
            sk = key.secret_key(**kw)
            k2 = Key.from_encoded_key(sk)
        except Exception as e:
            ctx.violation('C08|export-import-raises|%s|%s' % (cn, name), repr(e)[:300], case)
            continue
        if (k2.public_point, k2.secret_exponent, k2.curve) != (key.public_point, key.secret_exponent, key.curve):
            ctx.violation('C08|export-import-differs|%s|%s' % (cn, name), sk, case)
        if name == 'plain':
            want_sk = B.encode(secret[:32], curve.decode() + 'sk') if not (curve == b'ed' and len(secret) == 64) else None
            if want_sk and sk != want_sk:
                ctx.violation('C08|secret-key-encoding|' + cn, '%s vs %s' % (sk, want_sk), case)
    # encrypted export / import
    for pw in rng.sample(PASSPHRASES, n_pass):
        ctx.count('encrypted_roundtrips')
        pcase = dict(case, passphrase=repr(pw)[:40])
        try:
            esk = key.secret_key(passphrase=pw)
            k3 = Key.from_encoded_key(esk, passphrase=pw)
        except Exception as e:
            ctx.violation('C08|encrypted-export-import-raises|%s|%s' % (cn, type(pw).__name__), repr(e)[:300], pcase)
            continue
        if not esk.startswith(curve.decode() + 'esk'):
            ctx.violation('C08|encrypted-prefix|' + cn, esk[:8], pcase)
        if (k3.public_point, k3.secret_exponent, k3.curve) != (key.public_point, key.secret_exponent, key.curve):
            ctx.violation('C08|encrypted-export-import-differs|' + cn, esk, pcase)
        # a different passphrase must not silently give a key
        try:
            k4 = Key.from_encoded_key(esk, passphrase='wrong' + (pw if isinstance(pw, str) else 'b'))
            if k4.public_point == key.public_point:
                ctx.violation('C08|wrong-passphrase-accepted|' + cn, esk, pcase)
        except Exception:
            ctx.count('wrong_passphrase_rejected')
    if len(ctx.samples) < 4:
        ctx.samples.append({'curve': cn, 'public_key': want_pk, 'public_key_hash': want_pkh})


def judge_mnemonic(ctx, words, why):
    from pytezos.crypto.key import validate_mnemonic
    want = bip39.valid(words)
    s = ' '.join(words)
    ctx.count('mnemonic_checks')
    ctx.count('mnemonic_model_valid' if want else 'mnemonic_model_invalid')
    ctx.case(('mn', s), nontrivial=True)
    try:
        validate_mnemonic(s)
        got = True
    except Exception as e:
        got = False
        err = e
    if got != want:
        ctx.violation('C08|mnemonic-%s|%s|%d-words' % ('accepted-with-bad-checksum' if got else 'rejected-with-good-checksum', why, len(words)),
                      s if got else '%s: %r' % (s, err), {'mnemonic': words, 'why': why})
    elif why in ('swapped-words', 'substituted-word', 'from-entropy') and len(words) in (12, 15, 18, 21, 24):
        # the key constructor validates by default, whatever form the mnemonic is given in (string or list of words)
        from pytezos.crypto.key import Key
        for form, arg in (('list', list(words)), ('string', s)):
            ctx.count('from_mnemonic_validation_calls')
            try:
                Key.from_mnemonic(arg)
                ok = True
            except Exception:
                ok = False
            if ok != want:
                ctx.violation('C08|from_mnemonic-%s|%s-form' % ('accepts-bad-checksum' if ok else 'rejects-good-checksum', form), s, {'mnemonic': words, 'why': why})
    return want


def judge_derivation(ctx, rng, words, email, passphrase, curve):
    from pytezos.crypto.key import Key
    cn = CNAME[curve]
    s = ' '.join(words)
    case = {'mnemonic': words, 'email': email, 'passphrase': passphrase, 'curve': curve.decode(), 'why': 'derivation'}
    ctx.count('mnemonic_derivations')
    ctx.case(('der', s, email, passphrase, cn), nontrivial=True)
    try:
        k1 = Key.from_mnemonic(s, passphrase=passphrase, email=email, curve=curve)
        k2 = Key.from_mnemonic(list(words), passphrase=passphrase, email=email, curve=curve)
    except Exception as e:
        return ctx.violation('C08|from_mnemonic-raises|' + cn, repr(e)[:300], case)
    if (k1.public_point, k1.secret_exponent) != (k2.public_point, k2.secret_exponent):
        return ctx.violation('C08|derivation-not-deterministic|' + cn, '%s vs %s' % (k1.public_key(), k2.public_key()), case)
    seed = bip39.seed(s, email + passphrase)[:32]
    want_pub = E.public_point(curve, seed)
    if k1.public_point != want_pub:
        ctx.violation('C08|derivation-differs-from-reference|' + cn, '%s vs %s' % (k1.public_point.hex(), want_pub.hex()), case)


def run(ctx):
    rng = ctx.rng
    D.patch_parser_passthrough()
    nkeys = ctx.pick(120, 6000) // ctx.nshards
    nbls = max(1, ctx.pick(8, 300) // ctx.nshards)
    ctx.rule = ('secret exponents incl. 1 and n-1 and 64-byte ed25519 secrets, per curve: public key vs independent derivation, '
                'pkh vs Blake2b-160+base58 model, HASH_KEY, plain and encrypted export/import with ASCII/UTF-8/1kB/bytes '
                'passphrases; mnemonics of all five lengths from entropy (valid), word swaps / substitutions (mostly invalid), all '
                '2048 last words of a phrase (exact acceptance ratio), derivation vs own PBKDF2 model; distinct by case')
    for i in range(nkeys):
        curve = [b'ed', b'sp', b'p2'][i % 3]
        sec = gen_secret(rng, curve)
        judge_key(ctx, rng, curve, sec, n_pass=1 if i % 4 else 2)
    # keys whose public point has leading zero bytes in a coordinate (one key in 256): found with the reference derivation
    if ctx.mine(0):
        for curve in (b'p2', b'sp'):
            found, d = 0, rng.randrange(1, 2 ** 20)
            while found < ctx.pick(3, 12) and d < 2 ** 21:
                d += 1
                sec = d.to_bytes(32, 'big')
                if E.public_point(curve, sec)[1] == 0:
                    found += 1
                    ctx.count('keys_with_a_short_public_coordinate')
                    judge_key(ctx, rng, curve, sec, n_pass=1)
    # 64-byte ed25519 secret keys
    from pytezos.crypto.key import Key
    for _ in range(max(1, 8 // ctx.nshards)):
        seed = bytes(rng.getrandbits(8) for _ in range(32))
        full = Key.from_secret_exponent(seed, b'ed').secret_exponent
        try:
            k = Key.from_secret_exponent(full, b'ed')
            ctx.count('ed25519_64_byte_secrets')
            if k.public_point != E.public_point(b'ed', seed):
                ctx.violation('C08|public-key-differs|ed25519-64', k.public_key(), {'curve': 'ed', 'secret': seed.hex()})
        except Exception as e:
            ctx.violation('C08|from_secret_exponent-raises|ed25519-64', repr(e)[:200], {'curve': 'ed', 'secret': seed.hex()})
    for i in range(nbls):
        judge_key(ctx, rng, b'BL', gen_secret(rng, b'BL'), n_pass=1)
    ctx.require('keys_with_a_short_public_coordinate', 2)
    # mnemonics
    W = bip39.words()
    for i in range(ctx.pick(40, 1500) // ctx.nshards + 1):
        ent = bytes(rng.getrandbits(8) for _ in range(rng.choice([16, 20, 24, 28, 32])))
        if i == 0:
            ent = bytes(len(ent))
        if i == 1:
            ent = b'\xff' * len(ent)
        words = bip39.from_entropy(ent)
        judge_mnemonic(ctx, words, 'from-entropy')
        # perturbations
        w2 = list(words)
        a, b = rng.sample(range(len(w2)), 2)
        w2[a], w2[b] = w2[b], w2[a]
        judge_mnemonic(ctx, w2, 'swapped-words')
        w3 = list(words)
        w3[rng.randrange(len(w3))] = rng.choice(W)
        judge_mnemonic(ctx, w3, 'substituted-word')
        judge_mnemonic(ctx, words[:-1], 'wrong-length')
        judge_mnemonic(ctx, words + [rng.choice(W)], 'wrong-length')
        w4 = list(words)
        w4[rng.randrange(len(w4))] = 'notaword'
        judge_mnemonic(ctx, w4, 'unknown-word')
        if i % 4 == 0:
            curve = [b'ed', b'sp', b'p2', b'BL'][(i // 4) % 4] if i % 16 == 12 or True else b'ed'
            if curve == b'BL' and i % 32:
                curve = b'ed'
            judge_derivation(ctx, rng, words, rng.choice(['', 'a@b.c', 'üser@exämple.org']), rng.choice(['', 'pw', 'pässwörd']), curve)
    # exhaustive last word for one phrase per length (quick: two lengths)
    for nbytes in ((16, 32) if ctx.quick else (16, 20, 24, 28, 32)):
        if not ctx.mine(nbytes):
            continue
        words = bip39.from_entropy(bytes(rng.getrandbits(8) for _ in range(nbytes)))
        acc = 0
        for w in W:
            acc += bool(judge_mnemonic(ctx, words[:-1] + [w], 'last-word-sweep'))
        ctx.extra['last_word_sweep_accept_ratio_%d_words' % len(words)] = '%d/2048' % acc
    ctx.require('public_key_derivations', 10)
    ctx.require('export_import_roundtrips', 10)
    ctx.require('encrypted_roundtrips', 5)
    ctx.require('mnemonic_checks', 100)
    ctx.require('mnemonic_model_valid', 5)
    ctx.require('mnemonic_model_invalid', 50)
    ctx.require('mnemonic_derivations', 1)


def replay(ctx, case):
    D.patch_parser_passthrough()
    if 'mnemonic' in case:
        if case.get('why') == 'derivation':
            judge_derivation(ctx, ctx.rng, case['mnemonic'], case['email'], case['passphrase'], case['curve'].encode())
        else:
            judge_mnemonic(ctx, case['mnemonic'], case.get('why', 'replay'))
    else:
        judge_key(ctx, ctx.rng, case['curve'].encode(), bytes.fromhex(case['secret']), n_pass=2)
