"""C10 — addresses, keys, key hashes, signatures and chain ids survive the optimized binary form."""
from rv.gen import typed as G
from rv.hooks import drive as D
from rv.hooks import extract as X
from rv.model import base58 as B
from rv.model import pack as P
from rv.model import types as T

LEVEL = 'exploration'
SHARDS = {'quick': 2, 'thorough': 16}

TYPES = [T.ADDRESS, T.KEY_HASH, T.KEY, T.SIGNATURE, T.CHAIN_ID, T.contract(T.UNIT)]


def digests():
    out = [b'\x00' * 20, b'\xff' * 20]
    for first in range(0, 6):
        out.append(bytes([first]) + b'\x5a' * 19)
        out.append(bytes([first]) + b'\x00' * 19)
    out.append(b'\x5a' * 19 + b'\x00')
    out.append(b'\x00\x01' + b'\x5a' * 18)
    return out


def kind_of(t, v):
    if t[0] in ('address', 'contract'):
        a = v[0]
        k = {0: P.KH_PREFIX[a[1]] if a[0] == 0 else None, 1: 'KT1', 2: 'txr1', 3: 'sr1'}[a[0]] if a[0] else P.KH_PREFIX[a[1]]
        return '%s%s' % (k, '+ep' if v[1] else '')
    if t[0] == 'key_hash':
        return P.KH_PREFIX[v[0]]
    if t[0] == 'key':
        return P.KEY_PREFIX[v[0]]
    if t[0] == 'signature':
        return 'sig%d' % len(v)
    return t[0]


def judge(ctx, t, v, spelling=None):
    """spelling: optional explicit readable literal (e.g. an edsig... spelling of the signature bytes)."""
    lit = spelling or P.render(v, t, 'readable')
    case = {'type_expr': T.to_micheline(t), 'literal': lit}
    k = kind_of(t, v)
    ctx.case((t[0], repr(v), repr(spelling)), nontrivial=True)
    ctx.count('kind_' + k)
    try:
        cls = D.mk_type(t)
        obj = cls.from_micheline_value(lit)
    except Exception as e:
        return ctx.violation('C10|cannot-build-value|%s|%s' % (t[0], k), repr(e)[:300], case)
    try:
        opt = obj.to_micheline_value(mode='optimized')
    except Exception as e:
        return ctx.violation('C10|to-optimized-raises|%s|%s' % (t[0], k), repr(e)[:300], case)
    ctx.count('to_optimized')
    want = P.render(v, t, 'optimized')
    if opt != want:
        return ctx.violation('C10|optimized-bytes-differ|%s|%s' % (t[0], k), 'pytezos=%r model=%r' % (opt, want), case)
    try:
        back = cls.from_micheline_value(opt)
        bv = X.value_of(back)
    except Exception as e:
        return ctx.violation('C10|read-back-raises|%s|%s' % (t[0], k), '%r from %r' % (e, opt), case)
    ctx.count('read_back')
    if bv == v and not (back == obj):
        return ctx.violation('C10|read-back-not-equal-by-own-equality|%s|%s' % (t[0], k), 'wrote %r read %r' % (obj.value, back.value), case)
    if bv != v:
        bk = kind_of(t, bv)
        sig = 'C10|kind-confusion|%s|%s-read-as-%s' % (t[0], k, bk) if bk != k else 'C10|read-back-differs|%s|%s' % (t[0], k)
        return ctx.violation(sig, 'wrote %r read %r' % (lit, back.value), case)
    # blind_unpack of the raw optimized bytes, where the form is self-describing (22-byte addresses, tagged keys)
    if t[0] in ('address', 'key', 'signature') and not (t[0] == 'address' and v[1]):
        from pytezos.michelson.micheline import blind_unpack
        raw = bytes.fromhex(opt['bytes'])
        try:
            s = blind_unpack(raw)
        except Exception as e:
            s = e
        ctx.count('blind_unpack')
        if isinstance(s, Exception):
            return ctx.violation('C10|blind-unpack-raises|%s|%s' % (t[0], k), 'bytes %s: %r' % (raw.hex(), s), case)
        exp = P.render(v, t, 'readable')['string']
        if isinstance(s, str) and s != exp and s[:3] in ('tz1', 'tz2', 'tz3', 'tz4', 'KT1', 'sr1', 'txr', 'edp', 'spp', 'p2p', 'BLp', 'sig', 'BLs'):
            ctx.violation('C10|blind-unpack-kind-confusion|%s|%s' % (t[0], k), 'bytes %s read as %s, written as %s' % (raw.hex(), s, exp), case)


def run(ctx):
    rng = ctx.rng
    ctx.rule = ('address/contract: every kind (tz1-tz4, KT1, sr1) x digests with first byte 00..05 / last byte 00 / all-zero / '
                'all-ones / random x entrypoints (none, %default, 1..31 characters); key_hash 4 kinds x the same digests; keys of '
                'four curves; signatures of 64/96 bytes in every base58 spelling; chain ids; each written to optimized bytes, '
                'compared with the model bytes and read back; distinct by (type, value, spelling)')
    ds = digests()
    i = 0
    eps = ['', 'default', 'a', 'do', 'transfer_tokens', 'x' * 31, 'A', '_', 'e.f', 'root', 'default_admin', 'defaults', 'xdefault', 'Default']
    for d in ds + [G.rbytes(rng, 20) for _ in range(ctx.pick(20, 3000))]:
        i += 1
        if not ctx.mine(i):
            continue
        for tag in range(4):
            judge(ctx, T.KEY_HASH, bytes([tag]) + d)
        for a22 in [bytes([0, tag]) + d for tag in range(4)] + [bytes([k]) + d + b'\x00' for k in (1, 3)]:
            for ep in (eps if d in ds[:6] else rng.sample(eps, 2)):
                v = (a22, '' if ep == 'default' else ep)
                spelling = {'string': P.addr22_to_b58(a22) + '%default'} if ep == 'default' else None
                judge(ctx, T.ADDRESS, v, spelling)
                if a22[0] in (0, 1):
                    judge(ctx, T.contract(T.UNIT), v, spelling)
    for _ in range(ctx.pick(200, 20000) // ctx.nshards):
        k_ = G.gen_key(rng)
        judge(ctx, T.KEY, k_)
        ctx.remember(judge, ctx, T.KEY, k_)
        s = G.gen_signature(rng)
        judge(ctx, T.SIGNATURE, s)
        if len(s) == 64:
            p = rng.choice(['edsig', 'spsig', 'p2sig'])
            judge(ctx, T.SIGNATURE, s, {'string': B.encode(s, p)})
        judge(ctx, T.CHAIN_ID, G.gen_value(rng, T.CHAIN_ID))
    # keys and signatures whose leading bytes look like a 22-byte address followed by a printable entrypoint name
    def texty(n):
        return bytes(rng.choice(b'abcdefghijklmnopqrstuvwxyz_0123456789') for _ in range(n))
    for j in range(ctx.pick(40, 2000) // ctx.nshards):
        d = rng.choice(ds + [G.rbytes(rng, 20)])
        lookalikes = [bytes([0, rng.randrange(4)]) + d] + [bytes([k]) + d + b'\x00' for k in (1, 2, 3)]
        for head in lookalikes:
            tag = head[0]
            klen = 1 + P.KEY_LEN[tag]
            ctx.count('address_lookalike_keys')
            judge(ctx, T.KEY, head + texty(klen - 22))
            if tag == 0:
                for n in (64, 96):
                    ctx.count('address_lookalike_signatures')
                    judge(ctx, T.SIGNATURE, head + texty(n - 22))
    # a value of one kind offered where another kind is expected is refused - the first time and every time after
    kh_cls, addr_cls = D.mk_type(T.KEY_HASH), D.mk_type(T.ADDRESS)
    for d in ds[:8] + [G.rbytes(rng, 20) for _ in range(ctx.pick(6, 200) // ctx.nshards + 1)]:
        for a22 in [bytes([k]) + d + b'\x00' for k in (1, 2, 3)]:
            b58 = P.addr22_to_b58(a22)
            for lit, how in (({'string': b58}, 'string'), ({'bytes': a22.hex()}, '22-bytes')):
                for attempt in (1, 2, 3):
                    ctx.count('cross_kind_reads')
                    ctx.case(('cross', b58, how, attempt), nontrivial=True)
                    try:
                        o = kh_cls.from_micheline_value(lit)
                    except Exception:
                        continue
                    ctx.violation('C10|kind-confusion|key_hash|%s-read-as-key-hash|attempt-%s' % (b58[:3], 'first' if attempt == 1 else 'repeated'),
                                  '%r accepted as key_hash %r on attempt %d' % (lit, getattr(o, 'value', o), attempt), {'type_expr': {'prim': 'key_hash'}, 'literal': lit, 'negative': True})
                    break
    # the two byte forms of an implicit account: 21 bytes are a key_hash and never an address, 22 bytes (leading 00) are an address
    # and never a key_hash
    for d in ds[:6] + [G.rbytes(rng, 20) for _ in range(3)]:
        for tag in range(4):
            for cls_, name, raw in ((addr_cls, 'address', bytes([tag]) + d), (kh_cls, 'key_hash', bytes([0, tag]) + d)):
                for attempt in (1, 2):
                    ctx.count('cross_kind_reads')
                    ctx.case(('length-form', name, raw, attempt), nontrivial=True)
                    try:
                        o = cls_.from_micheline_value({'bytes': raw.hex()})
                    except Exception:
                        continue
                    ctx.violation('C10|kind-confusion|%s|%d-byte-form-accepted' % (name, len(raw)), '%s accepted as %s %r' % (raw.hex(), name, getattr(o, 'value', o)),
                                  {'type_expr': {'prim': name}, 'literal': {'bytes': raw.hex()}, 'negative': True})
                    break
    # tx rollup l2 address type: intrinsic round trip only
    for d in ds[:4]:
        try:
            from pytezos.michelson.types.base import MichelsonType
            cls = MichelsonType.match({'prim': 'tx_rollup_l2_address'})
            s = B.encode(d, 'txr1')
            o = cls.from_micheline_value({'string': s})
            b = cls.from_micheline_value(o.to_micheline_value(mode='optimized'))
            ctx.count('txr1_roundtrips')
            if b.value != s:
                ctx.violation('C10|read-back-differs|tx_rollup_l2_address|txr1', '%s -> %s' % (s, b.value), {'type_expr': {'prim': 'tx_rollup_l2_address'}, 'literal': {'string': s}})
        except Exception as e:
            ctx.violation('C10|read-back-raises|tx_rollup_l2_address|txr1', repr(e)[:200], {'type_expr': {'prim': 'tx_rollup_l2_address'}, 'literal': {'string': B.encode(d, 'txr1')}})
    ctx.run_again()
    ctx.require('to_optimized', 200)
    ctx.require('read_back', 200)


def replay(ctx, case):
    if case.get('negative'):
        cls = D.mk_type(T.from_micheline(case['type_expr']))
        for attempt in (1, 2, 3):
            try:
                cls.from_micheline_value(case['literal'])
            except Exception:
                continue
            return ctx.violation('C10|kind-confusion|replay', 'accepted on attempt %d' % attempt, case)
        return
    t = T.from_micheline(case['type_expr'])
    if t[0] == 'tx_rollup_l2_address':
        return
    v = P.parse(case['literal'], t)
    judge(ctx, t, v, case['literal'])
