"""C30 — protocol source diffs apply and revert exactly (inverse-law monitor; small text pairs exhaustive)."""
import itertools

LEVEL = 'exploration'
SHARDS = {'quick': 4, 'thorough': 16}

PLAIN = ['a\n', 'b\n', 'c\n']
HOSTILE = ['@@ -1 +1 @@\n', '+x\n', '-x\n', ' x\n', '\\ No newline at end of file\n', '--- f\n', '+++ f\n', '\n', '@\n', '\\\n',
           '-- x\n', '++\n']
ODD_EOL = ['x\r\n', 'y\r', 'z\x0c\n', 'w v\n', 'a\n']


def texts(alpha, maxlines):
    out = ['']
    for n in range(1, maxlines + 1):
        for combo in itertools.product(alpha, repeat=n):
            t = ''.join(combo)
            out.append(t)
            out.append(t[:-1] if t.endswith('\n') else t + 'q')  # same text without trailing newline
    return sorted(set(out))


def klass(a, b, alpha_name):
    f = []
    if not a or not b:
        f.append('empty')
    if (a and not a.endswith('\n')) or (b and not b.endswith('\n')):
        f.append('noeol')
    return alpha_name + ('|' + '+'.join(f) if f else '')


def judge(ctx, a, b, n, alpha_name):
    from pytezos.protocol.diff import apply_patch, make_patch
    case = {'a': a, 'b': b, 'context': n, 'alphabet': alpha_name}
    ctx.case((a, b, n), nontrivial=a != b)
    try:
        p = make_patch(a, b, 'f.ml', n)
    except Exception as e:
        return ctx.violation('C30|make_patch-raises|' + klass(a, b, alpha_name), repr(e), case)
    ctx.count('patches')
    if a == b and p != '':
        ctx.count('nonempty_patch_for_equal_texts')
    for revert, src, want, name in ((False, a, b, 'apply'), (True, b, a, 'revert')):
        try:
            got = apply_patch(src, p, revert=revert)
        except Exception as e:
            ctx.violation('C30|%s-raises|%s' % (name, klass(a, b, alpha_name)), '%r patch=%r' % (e, p), case)
            continue
        ctx.count('applications')
        if got != want:
            ctx.violation('C30|%s-wrong|%s' % (name, klass(a, b, alpha_name)), 'got=%r want=%r patch=%r' % (got, want, p), case)
    if len(ctx.samples) < 3 and a != b and len(a) > 4:
        ctx.samples.append({'a': a, 'b': b, 'context': n, 'patch': p})


def judge_protocol(ctx, files1, files2, n):
    from pytezos.protocol.protocol import Protocol, files_to_proto
    case = {'files1': files1, 'files2': files2, 'context': n}
    ctx.case(('proto', tuple(files1), tuple(files2), n), nontrivial=files1 != files2)
    ctx.count('protocol_pairs')
    try:
        p1, p2 = Protocol(files_to_proto(files1)), Protocol(files_to_proto(files2))
        d = p1.diff(p2, context_size=n)
        p3 = p1.patch(d)
    except Exception as e:
        return ctx.violation('C30|protocol-diff-patch-raises|' + type(e).__name__, repr(e), case)
    if list(p3) != list(p2):
        return ctx.violation('C30|protocol-patch-differs', 'got=%r want=%r' % (list(p3), list(p2)), case)
    if p3.hash() != p2.hash():
        return ctx.violation('C30|protocol-hash-differs', '%s vs %s' % (p3.hash(), p2.hash()), case)
    ctx.count('protocol_roundtrips')


def run(ctx):
    rng = ctx.rng
    ctx.rule = ('exhaustive: all ordered pairs of texts of <=%d lines over {a,b,c} (each with and without trailing newline, '
                'and the empty text) x context 0..4; hostile line alphabets (lines that look like hunk headers, +/- lines, '
                'the no-newline marker, file headers) and lines with \\r, \\r\\n, form feed: pairs of <=2 lines exhaustive; random longer texts; protocols of 1-4 '
                'components with added/removed/changed files; non-trivial = the two texts differ; distinct by (a,b,context)'
                % ctx.pick(3, 4))
    ctx.exhaustive = True
    T = texts(PLAIN, ctx.pick(3, 4))
    i = 0
    for a in T:
        for b in T:
            i += 1
            if not ctx.mine(i):
                continue
            for n in range(5):
                judge(ctx, a, b, n, 'plain')
    TH = texts(HOSTILE, 2) if not ctx.quick else texts(HOSTILE, 1) + rng.sample(texts(HOSTILE, 2), 60)
    for a in TH:
        for b in TH:
            i += 1
            if not ctx.mine(i):
                continue
            for n in (0, 1, 3):
                judge(ctx, a, b, n, 'hostile')
    TO = texts(ODD_EOL, 2)
    for a in TO:
        for b in TO:
            i += 1
            if not ctx.mine(i):
                continue
            for n in (0, 2):
                judge(ctx, a, b, n, 'odd-eol')
    # random longer texts: edits of a base text
    for _ in range(ctx.pick(1500, 60000) // ctx.nshards):
        alpha = PLAIN + (HOSTILE if rng.random() < 0.4 else ['d\n', 'e\n', 'long line %d\n' % rng.randint(0, 3)])
        base = [rng.choice(alpha) for _ in range(rng.randint(0, 30))]
        other = list(base)
        for _e in range(rng.randint(0, 5)):
            op = rng.random()
            pos = rng.randint(0, len(other))
            if op < 0.4:
                other.insert(pos, rng.choice(alpha))
            elif op < 0.7 and other:
                del other[min(pos, len(other) - 1)]
            elif other:
                other[min(pos, len(other) - 1)] = rng.choice(alpha)
        a, b = ''.join(base), ''.join(other)
        if rng.random() < 0.3 and a:
            a = a[:-1]
        if rng.random() < 0.3 and b:
            b = b[:-1]
        judge(ctx, a, b, rng.choice([0, 1, 2, 3, 4, 10]), 'random')
    # protocol level
    names = ['alpha.ml', 'alpha.mli', 'beta.ml', 'gamma.mli', 'delta.ml']
    for _ in range(ctx.pick(300, 6000) // ctx.nshards):
        k = rng.randint(1, 4)
        f1 = [(nm, ''.join(rng.choice(PLAIN) for _ in range(rng.randint(0, 6)))) for nm in rng.sample(names, k)]
        f2 = []
        for nm, t in f1:
            r = rng.random()
            if r < 0.2:
                continue  # removed
            if r < 0.5:
                f2.append((nm, t))
            else:
                lines = t.splitlines(True)
                lines.insert(rng.randint(0, len(lines)), rng.choice(PLAIN))
                if rng.random() < 0.4 and lines:
                    del lines[rng.randrange(len(lines))]
                t2 = ''.join(lines)
                f2.append((nm, t2[:-1] if rng.random() < 0.2 and t2 else t2))
        for nm in names:
            if nm not in dict(f1) and rng.random() < 0.25:
                f2.append((nm, ''.join(rng.choice(PLAIN) for _ in range(rng.randint(0, 4)))))
        if not f2:
            f2 = [(names[0], 'a\n')]
        judge_protocol(ctx, f1, f2, rng.choice([0, 1, 3]))
    ctx.require('patches', 1000)
    ctx.require('applications', 1000)
    ctx.require('protocol_pairs', 10)


def replay(ctx, case):
    if 'a' in case:
        judge(ctx, case['a'], case['b'], case['context'], case.get('alphabet', 'replay'))
    else:
        judge_protocol(ctx, [tuple(x) for x in case['files1']], [tuple(x) for x in case['files2']], case['context'])
