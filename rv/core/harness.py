"""Shared run context: counters, verdicts, findings classification, evidence, sharding.

Exit codes (DESIGN §2): 0 held (maybe with KNOWN-FINDING lines), 1 VIOLATION, 2 INCONCLUSIVE.
"""
import fnmatch
import hashlib
import json
import os
import random
import shutil
import subprocess
import sys
import time
from collections import Counter

VERIF = os.path.dirname(os.path.dirname(os.path.dirname(os.path.abspath(__file__))))
REPO = os.environ.get('VERIF_REPO', '/repo')
GUARD = 'PYTEZOS_VERIF'
LEVELS = ('exploration', 'fault_enumeration', 'model_checking', 'proof', 'translation_validation', 'other')


class HarnessAbort(BaseException):
    """Raised by monitors to cut an execution; BaseException so ErrorTrace cannot swallow it."""


def jdefault(o):
    if isinstance(o, (bytes, bytearray)):
        return {'hex': bytes(o).hex()}
    if isinstance(o, (set, frozenset)):
        return sorted(o, key=repr)
    if isinstance(o, tuple):
        return list(o)
    return repr(o)


def canon(obj):
    return json.dumps(obj, sort_keys=True, default=jdefault, separators=(',', ':'))


def h8(obj):
    s = obj if isinstance(obj, (bytes, str)) else canon(obj)
    if isinstance(s, str):
        s = s.encode('utf-8', 'surrogatepass')
    return hashlib.blake2b(s, digest_size=8).hexdigest()


def bootstrap_repo():
    """Put the *current* repository tree first on sys.path and check that it is the one imported."""
    src = os.path.join(REPO, 'src')
    if sys.path[0] != src:
        sys.path.insert(0, src)
    os.environ[GUARD] = '1'
    import pytezos  # noqa
    got = os.path.realpath(pytezos.__file__)
    if not got.startswith(os.path.realpath(src) + os.sep):
        return 'pytezos imported from %s, not from %s' % (got, src)
    return None


def load_known():
    known, fixed = [], []
    p = os.path.join(VERIF, 'KNOWN_FINDINGS.txt')
    if os.path.exists(p):
        for line in open(p):
            line = line.strip()
            if line.startswith('known:'):
                head, _, what = line[6:].partition('::')
                kv = dict(x.split('=', 1) for x in head.split() if '=' in x)
                known.append((kv.get('property'), kv.get('sig'), what.strip()))
            elif line.startswith('fixed:'):
                fixed.append(line)
    return known, fixed


class Ctx:
    def __init__(self, pid, tier, seed, level, shard=0, nshards=1):
        self.pid, self.tier, self.seed, self.level = pid, tier, seed, level
        self.shard, self.nshards = shard, nshards
        self.rng = random.Random('%s:%d:%d' % (pid, seed, shard))
        self.evaluations = 0
        self.distinct = set()
        self.counters = Counter()
        self.samples = []
        self.violations = []
        self.inconclusive = []
        self.rule = ''
        self.assumptions = []
        self.exhaustive = None
        self.extra = {}
        self.requirements = {}
        self.t0 = time.time()
        self.max_samples = 6
        self.max_violations = 200
        self._auto_sampled = False
        self._remembered = []
        self._again = False

    # -- recording -------------------------------------------------------------------------
    @property
    def quick(self):
        return self.tier == 'quick'

    def pick(self, quick, thorough):
        return quick if self.tier == 'quick' else thorough

    def mine(self, i):
        """Deterministic partition of an enumerated space over shards."""
        return i % self.nshards == self.shard

    def case(self, key=None, nontrivial=True, sample=None):
        self.evaluations += 1
        if nontrivial and key is not None:
            self.distinct.add(h8(key))
        if sample is not None and len(self.samples) < self.max_samples:
            self.samples.append(sample)
        elif sample is None and key is not None and nontrivial and len(self.samples) < 2 and not self._auto_sampled:
            self.samples.append({'case_key': key})
            self._auto_sampled = len(self.samples) >= 2

    def count(self, name, n=1):
        self.counters[name] += n

    def require(self, name, minimum=1):
        """The named counter must reach `minimum` or the run is inconclusive (monitor never reached)."""
        self.requirements[name] = max(minimum, self.requirements.get(name, 0))

    def remember(self, fn, *args, limit=150):
        """Order-dependence monitor: the first `limit` cases of a run are kept and judged once more at the very end (run_again),
        after everything else has gone through the same process - state left behind by other inputs (memo tables keyed too
        coarsely, shared constants edited in place) shows up as a verdict that changed."""
        if not self._again and len(self._remembered) < limit:
            self._remembered.append((fn, args))

    def run_again(self):
        self._again = True
        try:
            for fn, args in self._remembered:
                fn(*args)
                self.count('cases_run_again_at_the_end')
        finally:
            self._again = False

    def violation(self, sig, detail, case=None):
        self.counters['violations_raw'] += 1
        if self._again:
            detail = '[case judged again at the end of the workload] ' + str(detail)
        if len(self.violations) < self.max_violations or not any(v['sig'] == sig for v in self.violations):
            self.violations.append({'sig': sig, 'detail': detail, 'case': case})

    def inconc(self, reason):
        if len(self.inconclusive) < 50:
            self.inconclusive.append(reason)
        self.counters['inconclusive_cases'] += 1

    # -- shard (de)serialisation -----------------------------------------------------------
    def dump(self):
        return {
            'evaluations': self.evaluations, 'distinct': sorted(self.distinct),
            'counters': dict(self.counters), 'samples': self.samples, 'violations': self.violations,
            'inconclusive': self.inconclusive, 'rule': self.rule, 'assumptions': self.assumptions,
            'exhaustive': self.exhaustive, 'extra': self.extra, 'requirements': self.requirements,
        }

    def merge(self, d):
        self.evaluations += d['evaluations']
        self.distinct.update(d['distinct'])
        self.counters.update(d['counters'])
        for s in d['samples']:
            if len(self.samples) < self.max_samples:
                self.samples.append(s)
        self.violations.extend(d['violations'])
        self.inconclusive.extend(d['inconclusive'])
        self.rule = self.rule or d['rule']
        for a in d['assumptions']:
            if a not in self.assumptions:
                self.assumptions.append(a)
        if d['exhaustive'] is not None:
            self.exhaustive = d['exhaustive'] if self.exhaustive is None else (self.exhaustive and d['exhaustive'])
        for k, v in d['extra'].items():
            if isinstance(v, (int, float)) and isinstance(self.extra.get(k), (int, float)):
                self.extra[k] += v
            elif isinstance(v, list) and isinstance(self.extra.get(k), list):
                self.extra[k] = sorted(set(map(canon, self.extra[k])) | set(map(canon, v)))[:400]
            elif isinstance(v, dict) and isinstance(self.extra.get(k), dict):
                for kk, vv in v.items():
                    if isinstance(vv, (int, float)):
                        self.extra[k][kk] = self.extra[k].get(kk, 0) + vv
                    else:
                        self.extra[k].setdefault(kk, vv)
            else:
                self.extra.setdefault(k, v)
        for k, v in d['requirements'].items():
            self.requirements[k] = max(v, self.requirements.get(k, 0))

    # -- verdict ---------------------------------------------------------------------------
    def finish(self):
        """Classify, write evidence and replays, print verdict lines, return exit code."""
        known, _fixed = load_known()
        mine = [(sig, what) for (p, sig, what) in known if p == self.pid]
        known_hits, unlisted = Counter(), []
        for v in self.violations:
            hit = None
            for sig, what in mine:
                if sig and (v['sig'] == sig or fnmatch.fnmatchcase(v['sig'], sig)):
                    hit = (sig, what)
                    break
            if hit:
                known_hits[hit] += 1
            else:
                unlisted.append(v)
        for name, minimum in self.requirements.items():
            if self.counters.get(name, 0) < minimum:
                self.inconclusive.append('monitor counter %s=%d < %d (deciding monitor not reached)'
                                         % (name, self.counters.get(name, 0), minimum))
        wall = time.time() - self.t0
        cov = {
            'evaluations': self.evaluations,
            'distinct_nontrivial': len(self.distinct),
            'rule': self.rule,
            'samples': self.samples[:self.max_samples],
            'counters': dict(sorted(self.counters.items())),
            'known_findings_reobserved': {s: n for (s, _w), n in known_hits.items()},
            'unlisted_violation_signatures': sorted({v['sig'] for v in unlisted})[:50],
            'inconclusive': self.inconclusive[:20],
            'shards': self.nshards,
        }
        if self.exhaustive is not None:
            cov['exhaustive'] = bool(self.exhaustive)
        cov.update(self.extra)
        ev = {
            'property_id': self.pid, 'tier': self.tier, 'seed': self.seed, 'level': self.level,
            'coverage': cov, 'assumptions': self.assumptions, 'wall_s': round(wall, 3),
            'violations': len(unlisted),
        }
        os.makedirs(os.path.join(VERIF, 'evidence'), exist_ok=True)
        evp = os.path.join(VERIF, 'evidence', self.pid + '.json')
        tmp = evp + '.tmp%d' % os.getpid()
        with open(tmp, 'w') as f:
            json.dump(ev, f, indent=1, sort_keys=True, default=jdefault)
        os.replace(tmp, evp)

        for (sig, what), n in sorted(known_hits.items()):
            print('KNOWN-FINDING: property=%s %s [sig=%s, re-observed %d×]' % (self.pid, what, sig, n))
        code = 0
        import glob
        for old in glob.glob(os.path.join(VERIF, 'replays', self.pid + '-*.json')):
            os.remove(old)  # replays describe the latest run only
        if unlisted:
            os.makedirs(os.path.join(VERIF, 'replays'), exist_ok=True)
            seen = set()
            n = 0
            for v in unlisted:
                if v['sig'] in seen:
                    continue
                seen.add(v['sig'])
                path = os.path.join(VERIF, 'replays', '%s-%d-%d.json' % (self.pid, self.seed, n))
                n += 1
                with open(path, 'w') as f:
                    json.dump({'property': self.pid, 'tier': self.tier, 'seed': self.seed, 'sig': v['sig'],
                               'detail': v['detail'], 'case': v['case']}, f, indent=1, default=jdefault)
                print('VIOLATION property=%s replay=%s' % (self.pid, path))
                print('  sig=%s\n  %s' % (v['sig'], str(v['detail'])[:600]))
                if n >= 12:
                    break
            code = 1
        elif self.inconclusive:
            print('INCONCLUSIVE property=%s reason=%s' % (self.pid, self.inconclusive[0]))
            code = 2
        print('%s %s: evaluations=%d distinct_nontrivial=%d violations=%d known=%d wall=%.1fs -> exit %d'
              % (self.pid, self.tier, self.evaluations, len(self.distinct), len(unlisted),
                 sum(known_hits.values()), wall, code))
        return code


def run_shards(pid, tier, seed, nshards, timeout):
    """Fan out to subprocess shards (never multiprocessing.Pool); returns list of (dump|None, reason)."""
    scratch = '/var/tmp/rv-%d' % os.getpid()
    os.makedirs(scratch, exist_ok=True)
    procs = []
    env = dict(os.environ)
    for i in range(nshards):
        out = os.path.join(scratch, 'shard%d.json' % i)
        cmd = [sys.executable, '-m', 'rv.check', pid, '--tier', tier, '--shard', '%d/%d' % (i, nshards), '--out', out]
        log = open(os.path.join(scratch, 'shard%d.log' % i), 'w')
        procs.append((i, out, log, subprocess.Popen(cmd, cwd=VERIF, env=env, stdout=log, stderr=subprocess.STDOUT)))
    results = []
    deadline = time.time() + timeout
    for i, out, log, p in procs:
        try:
            p.wait(timeout=max(1, deadline - time.time()))
        except subprocess.TimeoutExpired:
            p.kill()
            p.wait()
            results.append((None, 'shard %d watchdog timeout after %ds' % (i, timeout)))
            continue
        finally:
            log.close()
        if p.returncode != 0 or not os.path.exists(out):
            tail = open(os.path.join(scratch, 'shard%d.log' % i)).read()[-1500:]
            results.append((None, 'shard %d exited %s: %s' % (i, p.returncode, tail.replace('\n', ' | '))))
        else:
            results.append((json.load(open(out)), None))
    shutil.rmtree(scratch, ignore_errors=True)
    return results
