"""Lock-step comparison of the instruction-hook trace of the real interpreter with the reference interpreter's trace."""
from rv.hooks import drive as D
from rv.hooks import extract as X
from rv.hooks import instr as H
from rv.model import interp as I
from rv.model import micheline_bin as MB
from rv.model import pack as P
from rv.model import types as T

ODD_TYPES = []
ENV_FIELDS = ['amount', 'balance', 'now', 'level', 'min_block_time', 'total_voting_power']


def apply_env(context, env):
    """Configure a pytezos ExecutionContext from a model environment (only the keys present)."""
    for k in ENV_FIELDS:
        if k in env:
            setattr(context, k, env[k])
    if 'sender' in env:
        context.sender = P.address_to_str(env['sender'])
    if 'source' in env:
        context.source = P.address_to_str(env['source'])
    if 'self_address' in env:
        context.address = P.address_to_str(env['self_address'])
    if 'chain_id' in env:
        context.chain_id = P.render(env['chain_id'], T.CHAIN_ID, 'readable')['string']
    if 'voting_power' in env:
        context.voting_power = {P.kh_to_b58(k): v for k, v in env['voting_power'].items()}


def norm_code(e):
    """Lambda code modulo annotations and literal spelling."""
    if isinstance(e, tuple) and e and e[0] == 'rec':
        return ('rec', norm_code(e[1]))
    if isinstance(e, list) and len(e) == 2 and isinstance(e[0], dict) and e[0].get('prim') == 'LAMBDA_REC' and isinstance(e[1], list):
        return ('rec', norm_code(e[1]))   # pytezos spells a recursive lambda value as { LAMBDA_REC a b code ; code }
    if isinstance(e, list):
        out = []
        for x in e:
            n = norm_code(x)
            if isinstance(x, list):
                out.extend(n[1])       # nested sequences are transparent for execution
            else:
                out.append(n)
        return ('seq', tuple(out))
    if isinstance(e, dict) and 'prim' in e:
        args = e.get('args') or []
        if e['prim'] == 'PUSH' and len(args) == 2:
            try:
                t = I.ty(args[0])
                return ('PUSH', t, repr(norm_value(P.parse(args[1], t, strict_order=False), t)))
            except Exception:
                pass
        if e['prim'] in ('pair', 'Pair') and len(args) > 2:
            return norm_code({'prim': e['prim'], 'args': [args[0], {'prim': e['prim'], 'args': args[1:]}]})
        return ('prim', e['prim'], tuple(norm_code(a) for a in args))
    if isinstance(e, dict):
        return MB.nf(e)
    return e


def norm_value(v, t):
    p = t[0]
    if p == 'lambda':
        return norm_code(v)
    if p == 'pair':
        return (norm_value(v[0], t[1]), norm_value(v[1], t[2]))
    if p == 'option':
        return None if v is None else ('Some', norm_value(v[1], t[1]))
    if p == 'or':
        return (v[0], norm_value(v[1], t[1] if v[0] == 'L' else t[2]))
    if p in ('list', 'set'):
        return [norm_value(x, t[1]) for x in v]
    if p == 'map':
        return [(norm_value(k, t[1]), norm_value(x, t[2])) for k, x in v]
    if p == 'big_map':
        items = v[2] if isinstance(v, tuple) and v and v[0] == 'big_map' else v
        return [(norm_value(k, t[1]), norm_value(x, t[2])) for k, x in items]
    if p == 'ticket':
        return (v[0], norm_value(v[1], t[1]), v[2])
    if p == 'bls12_381_fr':
        return v % (2 ** 256)
    return v


def has(t, prim):
    return T.contains(t, prim)


def slot_diff(ms, ps, mode='both'):
    """ms, ps: (type, value) from model / pytezos. -> None | (class, detail)
    mode 'values': only values are judged (C01); 'types': only declared types (C02); 'both'."""
    mt, mv = ms
    pt, pv = ps
    if pt == 'extract-error':
        return 'extract', pv
    if mt != pt:
        if mode != 'values':
            return 'type', 'declared type %s, expected %s' % (T.show(pt), T.show(mt))
    if mode == 'types':
        return None
    try:
        if norm_value(mv, mt) != norm_value(pv, mt):
            return 'value', 'value %r, expected %r' % (pv, mv)
    except Exception as e:
        if mv == pv:
            ODD_TYPES.append((mt, mv))
            return None      # equal values under a declared type that does not describe them (a C02 matter, not a value one)
        return 'value', 'incomparable %r vs %r (%r)' % (pv, mv, e)
    return None


def first_divergence(model_events, hook_events, mode='both'):
    """-> None | dict(index, prim, class, detail)"""
    for i, (me, he) in enumerate(zip(model_events, hook_events)):
        note = me[2] if len(me) > 2 else None
        if me[0] != he[0]:
            if he[0] == 'LAMBDA_REC':
                return {'index': i, 'prim': 'LAMBDA_REC', 'class': 'recursive-body-stack', 'note': 'lambda-pushed-over-argument',
                        'detail': 'inside EXEC of a recursive lambda pytezos first pushes the lambda itself on top of the argument '
                                  '(body then sees lambda : arg); the reference runs the body on arg : lambda'}
            return {'index': i, 'prim': me[0], 'class': 'control-flow', 'detail': 'model executed %s, pytezos %s' % (me[0], he[0])}
        ms, hs = me[1], he[1]
        if hs is None:
            continue
        if len(ms) != len(hs):
            return {'index': i, 'prim': me[0], 'class': 'stack-depth', 'detail': 'stack depth %d, expected %d' % (len(hs), len(ms))}
        for j, (a, b) in enumerate(zip(ms, hs)):
            d = slot_diff(a, b, mode)
            if d:
                return {'index': i, 'prim': me[0], 'class': d[0], 'detail': 'slot %d: %s' % (j, d[1]), 'slot': j,
                        'mtype': a[0], 'note': note}
    return None


def operand_shape(model_events, i, prim_event):
    """Type shape of the top slots before the diverging instruction (for signatures)."""
    if i == 0:
        return ''
    prev = model_events[i - 1][1]
    return ','.join(short(t) for t, _ in prev[:2])


def short(t):
    if len(t) == 1:
        return t[0]
    return '%s(%s)' % (t[0], ','.join(x[0] for x in t[1:]))


class Outcome:
    def __init__(self):
        self.kind = None        # agree | violation | inconclusive | unsupported
        self.sig = None
        self.detail = None
        self.model = None
        self.mon = None
        self.result = None
        self.interp = None


def run_both(code, env=None, snapshots=True, step_factor=50, keep_objects=False, interp=None, mode='both'):
    """Runs `code` (Micheline sequence, self-contained: it pushes its own inputs) on the model and on the real REPL."""
    out = Outcome()
    r = I.run(code, [], env)
    out.model = r
    if r.kind in ('unsupported', 'model-error'):
        out.kind = 'unsupported' if r.kind == 'unsupported' else 'inconclusive'
        out.detail = r.detail
        return out
    it = interp or D.new_interpreter()
    out.interp = it
    if env:
        apply_env(it.context, env)
    with H.monitoring(step_limit=step_factor * max(len(r.events), 20) + 200, snapshots=snapshots, keep_objects=keep_objects) as mon:
        try:
            res = it.execute(code)
        except H.HarnessAbort:
            out.kind, out.mon = 'violation', mon
            out.sig, out.detail = 'runaway', 'pytezos executed more than %d instructions, the model needed %d' % (mon.step_limit, len(r.events))
            return out
    out.mon, out.result = mon, res
    judge(out, r, mon, res, it, mode)
    return out


def env_kwargs(env):
    """Interpreter.run_code keyword arguments for a model environment."""
    kw = {}
    for k in ENV_FIELDS:
        if k in env:
            kw[k] = env[k]
    if 'sender' in env:
        kw['sender'] = P.address_to_str(env['sender'])
    if 'source' in env:
        kw['source'] = P.address_to_str(env['source'])
    if 'self_address' in env:
        kw['address'] = P.address_to_str(env['self_address'])
    if 'chain_id' in env:
        kw['chain_id'] = P.render(env['chain_id'], T.CHAIN_ID, 'readable')['string']
    if 'voting_power' in env:
        kw['voting_power'] = {P.kh_to_b58(k): v for k, v in env['voting_power'].items()}
    return kw


class _Res:
    def __init__(self, error):
        self.error = error


def run_both_contract(code, result_types, env=None, mode='values'):
    """The same program as a contract through Interpreter.run_code: parameter unit, storage = comb of the program's
    results; code = DROP ; <program> ; PAIR n ; NIL operation ; PAIR. Lock-step on the hook trace (the hook sits on the
    instruction classes, so it also sees run_code), plus the returned storage parsed back by the model."""
    from pytezos.michelson.repl import Interpreter
    out = Outcome()
    n = len(result_types)
    st = result_types[0] if n == 1 else T.pair(*result_types)
    if not T.storable(st) or T.contains(st, 'lambda') and False:
        out.kind, out.detail = 'unsupported', 'storage type not storable'
        return out
    try:
        init = I.default_value(st)
    except KeyError:
        out.kind, out.detail = 'unsupported', 'no default value for the storage type'
        return out
    body = [{'prim': 'DROP'}] + list(code) + ([{'prim': 'PAIR', 'args': [{'int': str(n)}]}] if n > 1 else []) + \
           [{'prim': 'NIL', 'args': [{'prim': 'operation'}]}, {'prim': 'PAIR'}]
    script = [{'prim': 'parameter', 'args': [{'prim': 'unit'}]}, {'prim': 'storage', 'args': [T.to_micheline(st)]}, {'prim': 'code', 'args': [body]}]
    r = I.run(body, [(T.pair(T.UNIT, st), ((), init))], env)
    out.model = r
    if r.kind in ('unsupported', 'model-error'):
        out.kind, out.detail = ('unsupported' if r.kind == 'unsupported' else 'inconclusive'), r.detail
        return out
    with H.monitoring(step_limit=50 * max(len(r.events), 20) + 200) as mon:
        try:
            ops, storage, lazy_diff, stdout, error = Interpreter.run_code(
                parameter={'prim': 'Unit'}, storage=P.render(init, st, 'readable'), script=script, **env_kwargs(env or {}))
        except H.HarnessAbort:
            out.kind, out.mon, out.sig, out.detail = 'violation', mon, 'runaway', 'run_code does not terminate'
            return out
    out.mon = mon
    judge(out, r, mon, _Res(error), None, mode)
    if out.kind == 'agree' and r.kind == 'ok' and error is None:
        try:
            got = P.parse(storage, st)
        except Exception as e:
            out.kind, out.sig, out.detail = 'violation', 'run_code|storage-unreadable', '%r: %r' % (storage, e)
            return out
        want = r.stack[0][1][1]
        if norm_value(got, st) != norm_value(want, st):
            out.kind, out.sig = 'violation', 'run_code|returned-storage-differs'
            out.detail = 'storage %r, expected %r' % (got, want)
    return out


RUNTIME_PRIMS = {'ADD', 'SUB', 'MUL', 'LSL', 'LSR'}


def judge(out, r, mon, res, it, mode='both'):
    _judge(out, r, mon, res, it, mode)
    if out.kind == 'violation' and mode == 'values':
        # a values-mode divergence that follows an earlier declared-type divergence is a consequence of the latter
        tdiv = first_divergence(r.events, mon.events, 'types')
        vidx = getattr(out, 'div', {}).get('index', len(mon.events)) if hasattr(out, 'div') else len(mon.events)
        if tdiv is not None and tdiv['class'] == 'type' and tdiv['index'] <= vidx:
            out.root = tdiv
            out.sig = 'consequence-of-type-divergence|%s|%s' % (tdiv['prim'], tdiv.get('note') or operand_shape(r.events, tdiv['index'], tdiv['prim']))
            out.detail = 'root: after instruction #%d %s: %s; consequence: %s' % (tdiv['index'], tdiv['prim'], tdiv['detail'], out.detail)


def _judge(out, r, mon, res, it, mode='both'):
    div = first_divergence(r.events, mon.events, mode)
    if div is not None:
        out.kind = 'violation'
        out.sig = '%s|%s|%s' % (div['prim'], div['class'], div.get('note') or operand_shape(r.events, div['index'], div['prim']))
        out.detail = 'after instruction #%d %s: %s' % (div['index'], div['prim'], div['detail'])
        out.div = div
        return
    nm, nh = len(r.events), len(mon.events)
    if res.error is None:
        if r.kind != 'ok':
            nxt = '?'
            out.kind = 'violation'
            out.sig = 'no-failure|%s' % r.kind
            out.detail = 'model: %s %r; pytezos finished normally' % (r.kind, r.value or r.detail)
            return
        if nh != nm:
            out.kind, out.sig = 'violation', 'trace-length'
            out.detail = 'pytezos executed %d instructions, model %d' % (nh, nm)
            return
        out.kind = 'agree'
        return
    # pytezos failed
    err = res.error
    failing = mon.raised[0][0] if mon.raised else '?'
    if r.kind == 'ok' or nh < nm and r.kind != 'ok' and failing != (r.events[nh][0] if nh < nm else failing):
        if r.kind == 'ok':
            ms = r.events[nh][0] if nh < nm else '?'
            out.kind = 'violation'
            out.sig = '%s|raises|%s' % (failing, operand_shape(r.events, nh, failing))
            out.detail = 'pytezos fails in %s (%s) where the model continues (next model instruction %s)' % (failing, errtext(err), ms)
            return
    if r.kind == 'failwith':
        if failing != 'FAILWITH':
            out.kind, out.sig = 'violation', '%s|raises-instead-of-FAILWITH' % failing
            out.detail = 'model reaches FAILWITH with %r; pytezos fails in %s: %s' % (r.value, failing, errtext(err))
            return
        if mon.failwith is None:
            out.kind, out.detail = 'inconclusive', 'FAILWITH value not captured: %s' % mon.failwith_error
            return
        d = slot_diff(r.value, mon.failwith, mode)
        if d:
            out.kind, out.sig = 'violation', 'FAILWITH|value'
            out.detail = 'FAILWITH %s' % d[1]
            return
        out.kind = 'agree'
        return
    if r.kind == 'runtime':
        if failing == 'FAILWITH':
            out.kind, out.sig = 'violation', 'FAILWITH|instead-of-runtime-failure'
            out.detail = 'model: %s' % r.detail
            return
        out.kind = 'agree'
        return
    out.kind = 'agree'


def errtext(e):
    return ' / '.join(str(a)[:80] for a in getattr(e, 'args', [e]))[:300]
