"""Lock-step comparison of the instruction-hook trace of the real interpreter with the reference interpreter's trace."""
from rv.hooks import drive as D
from rv.hooks import extract as X
from rv.hooks import instr as H
from rv.model import interp as I
from rv.model import micheline_bin as MB
from rv.model import pack as P
from rv.model import types as T

ODD_TYPES = []
ENV_FIELDS = ['amount', 'balance', 'now', 'level', 'min_block_time', 'total_voting_power']


def apply_env(context, env):
    """Configure a pytezos ExecutionContext from a model environment (only the keys present)."""
    for k in ENV_FIELDS:
        if k in env:
            setattr(context, k, env[k])
    if 'sender' in env:
        context.sender = P.address_to_str(env['sender'])
    if 'source' in env:
        context.source = P.address_to_str(env['source'])
    if 'self_address' in env:
        context.address = P.address_to_str(env['self_address'])
    if 'chain_id' in env:
        context.chain_id = P.render(env['chain_id'], T.CHAIN_ID, 'readable')['string']
    if 'voting_power' in env:
        context.voting_power = {P.kh_to_b58(k): v for k, v in env['voting_power'].items()}


def norm_code(e):
    """Lambda code modulo annotations and literal spelling."""
    if isinstance(e, tuple) and e and e[0] == 'rec':
        return ('rec', norm_code(e[1]))
    if isinstance(e, list) and len(e) == 2 and isinstance(e[0], dict) and e[0].get('prim') == 'LAMBDA_REC' and isinstance(e[1], list):
        return ('rec', norm_code(e[1]))   # pytezos spells a recursive lambda value as { LAMBDA_REC a b code ; code }
    if isinstance(e, list):
        out = []
        for x in e:
            n = norm_code(x)
            if isinstance(x, list):
                out.extend(n[1])       # nested sequences are transparent for execution
            else:
                out.append(n)
        return ('seq', tuple(out))
    if isinstance(e, dict) and 'prim' in e:
        args = e.get('args') or []
        if e['prim'] == 'PUSH' and len(args) == 2:
            try:
                t = I.ty(args[0])
                return ('PUSH', t, repr(norm_value(P.parse(args[1], t, strict_order=False), t)))
            except Exception:
                pass
        if e['prim'] in ('pair', 'Pair') and len(args) > 2:
            return norm_code({'prim': e['prim'], 'args': [args[0], {'prim': e['prim'], 'args': args[1:]}]})
        return ('prim', e['prim'], tuple(norm_code(a) for a in args))
    if isinstance(e, dict):
        return MB.nf(e)
    return e


def norm_value(v, t):
    """Value modulo the spelling of lambda code. A component whose shape is not what its declared type says (a declared type
    that does not describe the value is C02's matter) is left as it is, so that the rest is still normalised."""
    try:
        return _norm_value(v, t)
    except (TypeError, IndexError, ValueError, KeyError, AttributeError):
        return v


def _norm_value(v, t):
    p = t[0]
    if p == 'lambda':
        return norm_code(v)
    if p == 'pair':
        return (norm_value(v[0], t[1]), norm_value(v[1], t[2]))
    if p == 'option':
        return None if v is None else ('Some', norm_value(v[1], t[1]))
    if p == 'or':
        return (v[0], norm_value(v[1], t[1] if v[0] == 'L' else t[2]))
    if p in ('list', 'set'):
        return [norm_value(x, t[1]) for x in v]
    if p == 'map':
        return [(norm_value(k, t[1]), norm_value(x, t[2])) for k, x in v]
    if p == 'big_map':
        items = v[2] if isinstance(v, tuple) and v and v[0] == 'big_map' else v
        return [(norm_value(k, t[1]), norm_value(x, t[2])) for k, x in items]
    if p == 'ticket':
        return (v[0], norm_value(v[1], t[1]), v[2])
    if p == 'bls12_381_fr':
        return v % (2 ** 256)
    return v


def norm_any(v):
    """Type-free normalisation: anything that looks like Michelson code (a list of prim nodes) is normalised as code wherever it
    sits; used only to tell a real value difference from a spelling difference of lambda code under a wrong declared type."""
    if isinstance(v, list) and v and all(isinstance(x, (dict, list)) for x in v) and any(isinstance(x, dict) and 'prim' in x for x in v):
        return norm_code(v)
    if isinstance(v, (list, tuple)):
        return type(v)(norm_any(x) for x in v)
    return v


def has(t, prim):
    return T.contains(t, prim)


def slot_diff(ms, ps, mode='both'):
    """ms, ps: (type, value) from model / pytezos. -> None | (class, detail)
    mode 'values': only values are judged (C01); 'types': only declared types (C02); 'both'."""
    mt, mv = ms
    pt, pv = ps
    if pt == 'deep' or mt == 'deep':
        return None          # slot outside the hook's snapshot window (real-contract runs): not compared at this step
    if pt == 'extract-error':
        return 'extract', pv
    if mt != pt:
        if mode != 'values':
            return 'type', 'declared type %s, expected %s' % (T.show(pt), T.show(mt))
    if mode == 'types':
        return None
    try:
        if norm_value(mv, mt) != norm_value(pv, mt):
            if norm_any(mv) == norm_any(pv):
                ODD_TYPES.append((mt, 'lambda code under a declared type that does not describe it'))
                return None      # equal up to the spelling of lambda code sitting where the declared type does not expect a lambda
            return 'value', 'value %r, expected %r' % (pv, mv)
    except Exception as e:
        if mv == pv:
            ODD_TYPES.append((mt, mv))
            return None      # equal values under a declared type that does not describe them (a C02 matter, not a value one)
        return 'value', 'incomparable %r vs %r (%r)' % (pv, mv, e)
    return None


def first_divergence(model_events, hook_events, mode='both'):
    """-> None | dict(index, prim, class, detail)"""
    for i, (me, he) in enumerate(zip(model_events, hook_events)):
        note = me[2] if len(me) > 2 else None
        if me[0] != he[0]:
            if he[0] == 'LAMBDA_REC':
                return {'index': i, 'prim': 'LAMBDA_REC', 'class': 'recursive-body-stack', 'note': 'lambda-pushed-over-argument',
                        'detail': 'inside EXEC of a recursive lambda pytezos first pushes the lambda itself on top of the argument '
                                  '(body then sees lambda : arg); the reference runs the body on arg : lambda'}
            return {'index': i, 'prim': me[0], 'class': 'control-flow', 'detail': 'model executed %s, pytezos %s' % (me[0], he[0])}
        ms, hs = me[1], he[1]
        if hs is None:
            continue
        if len(ms) != len(hs):
            return {'index': i, 'prim': me[0], 'class': 'stack-depth', 'detail': 'stack depth %d, expected %d' % (len(hs), len(ms))}
        for j, (a, b) in enumerate(zip(ms, hs)):
            d = slot_diff(a, b, mode)
            if d:
                return {'index': i, 'prim': me[0], 'class': d[0], 'detail': 'slot %d: %s' % (j, d[1]), 'slot': j,
                        'mtype': a[0], 'note': note}
    return None


def operand_shape(model_events, i, prim_event):
    """Type shape of the top slots before the diverging instruction (for signatures)."""
    if i == 0:
        return ''
    prev = model_events[i - 1][1]
    return ','.join(short(t) for t, _ in prev[:2])


def short(t):
    if len(t) == 1:
        return t[0]
    return '%s(%s)' % (t[0], ','.join(x[0] for x in t[1:]))


class Outcome:
    def __init__(self):
        self.kind = None        # agree | violation | inconclusive | unsupported
        self.sig = None
        self.detail = None
        self.model = None
        self.mon = None
        self.result = None
        self.interp = None


def run_both(code, env=None, snapshots=True, step_factor=50, keep_objects=False, interp=None, mode='both'):
    """Runs `code` (Micheline sequence, self-contained: it pushes its own inputs) on the model and on the real REPL."""
    out = Outcome()
    r = I.run(code, [], env)
    out.model = r
    if r.kind in ('unsupported', 'model-error'):
        out.kind = 'unsupported' if r.kind == 'unsupported' else 'inconclusive'
        out.detail = r.detail
        return out
    it = interp or D.new_interpreter()
    out.interp = it
    if env:
        apply_env(it.context, env)
    with H.monitoring(step_limit=step_factor * max(len(r.events), 20) + 200, snapshots=snapshots, keep_objects=keep_objects) as mon:
        try:
            res = it.execute(code)
        except H.HarnessAbort:
            out.kind, out.mon = 'violation', mon
            out.sig, out.detail = 'runaway', 'pytezos executed more than %d instructions, the model needed %d' % (mon.step_limit, len(r.events))
            return out
    out.mon, out.result = mon, res
    judge(out, r, mon, res, it, mode)
    return out


def env_kwargs(env):
    """Interpreter.run_code keyword arguments for a model environment."""
    kw = {}
    for k in ENV_FIELDS:
        if k in env:
            kw[k] = env[k]
    if 'sender' in env:
        kw['sender'] = P.address_to_str(env['sender'])
    if 'source' in env:
        kw['source'] = P.address_to_str(env['source'])
    if 'self_address' in env:
        kw['address'] = P.address_to_str(env['self_address'])
    if 'chain_id' in env:
        kw['chain_id'] = P.render(env['chain_id'], T.CHAIN_ID, 'readable')['string']
    if 'voting_power' in env:
        kw['voting_power'] = {P.kh_to_b58(k): v for k, v in env['voting_power'].items()}
    return kw


class _Res:
    def __init__(self, error):
        self.error = error


def run_both_contract(code, result_types, env=None, mode='values'):
    """The same program as a contract through Interpreter.run_code: parameter unit, storage = comb of the program's
    results; code = DROP ; <program> ; PAIR n ; NIL operation ; PAIR. Lock-step on the hook trace (the hook sits on the
    instruction classes, so it also sees run_code), plus the returned storage parsed back by the model."""
    from pytezos.michelson.repl import Interpreter
    out = Outcome()
    n = len(result_types)
    st = result_types[0] if n == 1 else T.pair(*result_types)
    if not T.storable(st) or T.contains(st, 'lambda') and False:
        out.kind, out.detail = 'unsupported', 'storage type not storable'
        return out
    try:
        init = I.default_value(st)
    except KeyError:
        out.kind, out.detail = 'unsupported', 'no default value for the storage type'
        return out
    body = [{'prim': 'DROP'}] + list(code) + ([{'prim': 'PAIR', 'args': [{'int': str(n)}]}] if n > 1 else []) + \
           [{'prim': 'NIL', 'args': [{'prim': 'operation'}]}, {'prim': 'PAIR'}]
    script = [{'prim': 'parameter', 'args': [{'prim': 'unit'}]}, {'prim': 'storage', 'args': [T.to_micheline(st)]}, {'prim': 'code', 'args': [body]}]
    r = I.run(body, [(T.pair(T.UNIT, st), ((), init))], env)
    out.model = r
    if r.kind in ('unsupported', 'model-error'):
        out.kind, out.detail = ('unsupported' if r.kind == 'unsupported' else 'inconclusive'), r.detail
        return out
    with H.monitoring(step_limit=50 * max(len(r.events), 20) + 200) as mon:
        try:
            ops, storage, lazy_diff, stdout, error = Interpreter.run_code(
                parameter={'prim': 'Unit'}, storage=P.render(init, st, 'readable'), script=script, **env_kwargs(env or {}))
        except H.HarnessAbort:
            out.kind, out.mon, out.sig, out.detail = 'violation', mon, 'runaway', 'run_code does not terminate'
            return out
    out.mon = mon
    judge(out, r, mon, _Res(error), None, mode)
    if out.kind == 'agree' and r.kind == 'ok' and error is None:
        try:
            got = P.parse(storage, st)
        except Exception as e:
            out.kind, out.sig, out.detail = 'violation', 'run_code|storage-unreadable', '%r: %r' % (storage, e)
            return out
        want = r.stack[0][1][1]
        if norm_value(got, st) != norm_value(want, st):
            out.kind, out.sig = 'violation', 'run_code|returned-storage-differs'
            out.detail = 'storage %r, expected %r' % (got, want)
    return out


RUNTIME_PRIMS = {'ADD', 'SUB', 'MUL', 'LSL', 'LSR'}


def judge(out, r, mon, res, it, mode='both'):
    _judge(out, r, mon, res, it, mode)
    if out.kind == 'violation' and mode == 'values':
        # a values-mode divergence that follows an earlier declared-type divergence is a consequence of the latter
        tdiv = first_divergence(r.events, mon.events, 'types')
        vidx = getattr(out, 'div', {}).get('index', len(mon.events)) if hasattr(out, 'div') else len(mon.events)
        if tdiv is not None and tdiv['class'] == 'type' and tdiv['index'] <= vidx:
            out.root = tdiv
            out.sig = 'consequence-of-type-divergence|%s|%s' % (tdiv['prim'], tdiv.get('note') or operand_shape(r.events, tdiv['index'], tdiv['prim']))
            out.detail = 'root: after instruction #%d %s: %s; consequence: %s' % (tdiv['index'], tdiv['prim'], tdiv['detail'], out.detail)


def _judge(out, r, mon, res, it, mode='both'):
    div = first_divergence(r.events, mon.events, mode)
    if div is not None:
        out.kind = 'violation'
        out.sig = '%s|%s|%s' % (div['prim'], div['class'], div.get('note') or operand_shape(r.events, div['index'], div['prim']))
        out.detail = 'after instruction #%d %s: %s' % (div['index'], div['prim'], div['detail'])
        out.div = div
        return
    nm, nh = len(r.events), len(mon.events)
    if res.error is None:
        if r.kind != 'ok':
            nxt = '?'
            out.kind = 'violation'
            out.sig = 'no-failure|%s' % r.kind
            out.detail = 'model: %s %r; pytezos finished normally' % (r.kind, r.value or r.detail)
            return
        if nh != nm:
            out.kind, out.sig = 'violation', 'trace-length'
            out.detail = 'pytezos executed %d instructions, model %d' % (nh, nm)
            return
        out.kind = 'agree'
        return
    # pytezos failed
    err = res.error
    failing = mon.raised[0][0] if mon.raised else '?'
    if r.kind == 'ok' or nh < nm and r.kind != 'ok' and failing != (r.events[nh][0] if nh < nm else failing):
        if r.kind == 'ok':
            ms = r.events[nh][0] if nh < nm else '?'
            out.kind = 'violation'
            out.sig = '%s|raises|%s' % (failing, operand_shape(r.events, nh, failing))
            out.detail = 'pytezos fails in %s (%s) where the model continues (next model instruction %s)' % (failing, errtext(err), ms)
            return
    if r.kind == 'failwith':
        if failing != 'FAILWITH':
            out.kind, out.sig = 'violation', '%s|raises-instead-of-FAILWITH' % failing
            out.detail = 'model reaches FAILWITH with %r; pytezos fails in %s: %s' % (r.value, failing, errtext(err))
            return
        if mon.failwith is None:
            out.kind, out.detail = 'inconclusive', 'FAILWITH value not captured: %s' % mon.failwith_error
            return
        d = slot_diff(r.value, mon.failwith, mode)
        if d:
            out.kind, out.sig = 'violation', 'FAILWITH|value'
            out.detail = 'FAILWITH %s' % d[1]
            return
        out.kind = 'agree'
        return
    if r.kind == 'runtime':
        if failing == 'FAILWITH':
            out.kind, out.sig = 'violation', 'FAILWITH|instead-of-runtime-failure'
            out.detail = 'model: %s' % r.detail
            return
        out.kind = 'agree'
        return
    out.kind = 'agree'


def errtext(e):
    return ' / '.join(str(a)[:80] for a in getattr(e, 'args', [e]))[:300]


# ---- real contracts (scripts and recorded operations shipped with the repository's tests) --------------------------------
def _comb_split(texpr, value):
    """(type args as binary pair, [left value, right value]) of a pair node in any of its spellings, or None."""
    a = texpr.get('args') or []
    if len(a) > 2:
        a = [a[0], {'prim': 'pair', 'args': a[1:]}]
    vals = value if isinstance(value, list) else (value.get('args') if isinstance(value, dict) and value.get('prim') == 'Pair' else None)
    if not vals or len(vals) < 2:
        return None
    return a, [vals[0], vals[1] if len(vals) == 2 else vals[1:]]


def map_bigmaps(texpr, value, fn, path='$'):
    """Rebuilds a Micheline value of type `texpr` with every node of type big_map replaced by fn(path, type expr, node)."""
    p = texpr.get('prim')
    a = texpr.get('args') or []
    if p == 'big_map':
        return fn(path, texpr, value)
    if p == 'pair':
        s = _comb_split(texpr, value)
        if s is None:
            return value
        ta, va = s
        return {'prim': 'Pair', 'args': [map_bigmaps(ta[0], va[0], fn, path + '.0'), map_bigmaps(ta[1], va[1], fn, path + '.1')]}
    if p == 'option' and isinstance(value, dict) and value.get('prim') == 'Some':
        return {'prim': 'Some', 'args': [map_bigmaps(a[0], value['args'][0], fn, path + '.some')]}
    if p == 'or' and isinstance(value, dict) and value.get('prim') in ('Left', 'Right'):
        i = 0 if value['prim'] == 'Left' else 1
        return {'prim': value['prim'], 'args': [map_bigmaps(a[i], value['args'][0], fn, path + '.' + value['prim'])]}
    if p == 'map' and isinstance(value, list):
        return [{'prim': 'Elt', 'args': [x['args'][0], map_bigmaps(a[1], x['args'][1], fn, '%s[%d]' % (path, i))]} if isinstance(x, dict) and x.get('prim') == 'Elt' else x
                for i, x in enumerate(value)]
    if p == 'list' and isinstance(value, list):
        return [map_bigmaps(a[0], x, fn, '%s[%d]' % (path, i)) for i, x in enumerate(value)]
    return value


def self_contained_storage(storage_texpr, recorded, diffs, fill=True):
    """Recorded storages hold big-map ids. Each id is replaced by a literal big map: the entries that the recorded
    lazy_storage_diff writes under that id (sorted by the model's key order) when fill is set, else the empty map."""
    from rv.model import order as O
    by_id = {}
    for d in diffs or []:
        if d.get('kind') == 'big_map':
            by_id.setdefault(str(d.get('id')), []).extend((d.get('diff') or {}).get('updates') or [])

    def fn(path, texpr, node):
        if not (isinstance(node, dict) and 'int' in node):
            return node
        if not fill:
            return []
        kt = I.ty(texpr['args'][0])
        vt = I.ty(texpr['args'][1])
        ent = {}
        for u in by_id.get(node['int'], []):
            if u.get('value') is None or 'key' not in u:
                continue
            try:
                k = P.parse(u['key'], kt)
                P.parse(u['value'], vt)
            except Exception:
                continue
            ent[repr(k)] = (k, u)
        keys = O.sort_unique(kt, [k for k, _ in ent.values()])
        return [{'prim': 'Elt', 'args': [ent[repr(k)][1]['key'], ent[repr(k)][1]['value']]} for k in keys]

    return map_bigmaps(storage_texpr, recorded, fn)


def run_real_contract(script, entrypoint, ep_path, ep_texpr, param_value, storage_value, env=None, mode='values', deep=False):
    """One call of a real contract: pytezos through Interpreter.run_code under the instruction hook, then the reference
    interpreter on the same (parameter, storage) pair with the operation-building instructions adopted from the hook trace.
    Lock-step comparison, FAILWITH value, and the returned storage outside big maps."""
    from pytezos.michelson.repl import Interpreter
    out = Outcome()
    sect = {s['prim']: s for s in script if isinstance(s, dict) and s.get('prim') in ('parameter', 'storage', 'code')}
    ptx, stx, body = sect['parameter']['args'][0], sect['storage']['args'][0], sect['code']['args'][0]
    try:
        pt, st, et = I.ty(ptx), I.ty(stx), I.ty(ep_texpr)
        pv = P.parse(param_value, et)
        for c in reversed(ep_path):
            pv = ('L' if c == 'L' else 'R', pv)
        sv = P.parse(storage_value, st)
    except (P.ParseError, P.Uncertain, KeyError, TypeError, ValueError, IndexError) as e:
        out.kind, out.detail = 'unsupported', 'inputs not readable by the model: %r' % (e,)
        return out
    with H.monitoring(step_limit=60000, keep_objects=deep, window=8, node_budget=6000000) as mon:
        try:
            ops, storage, lazy_diff, stdout, error = Interpreter.run_code(
                parameter=param_value, storage=storage_value, script=script, entrypoint=entrypoint, **env_kwargs(env or {}))
        except H.HarnessAbort:
            # a random argument can make a real contract loop for as long as it likes (on chain it would run out of gas):
            # beyond the step budget nothing is judged
            out.kind, out.mon, out.detail = 'unsupported', mon, 'step or snapshot budget exhausted: the call executes more than 60000 instructions or its traces exceed the memory guard'
            return out
    out.mon = mon
    out.returned = (ops, storage, lazy_diff, error)
    if error is not None and not mon.events and not mon.raised:
        out.kind, out.detail = 'unsupported', 'rejected before execution: %s' % errtext(error)
        out.pre_error = error
        return out
    m = I.Machine(env, max_steps=200000, oracle=mon.events)
    r = m.run(body, [(T.pair(pt, st), (pv, sv))])
    r.adopted = m.adopted
    out.model = r
    if r.kind in ('unsupported', 'model-error'):
        out.kind, out.detail = ('unsupported' if r.kind == 'unsupported' else 'inconclusive'), r.detail
        return out
    judge(out, r, mon, _Res(error), None, mode)
    if deep and out.kind == 'agree':
        out.walks, bad = self_consistency(mon)
        if bad:
            out.kind, out.sig, out.detail = 'violation', bad[0], bad[1]
            return out
    if out.kind == 'agree' and r.kind == 'ok' and error is None and mode != 'types':
        want = r.stack[0][1][1]
        try:
            got = P.parse(map_bigmaps(stx, storage, lambda p_, t_, n_: []), st)
        except Exception as e:
            out.kind, out.sig, out.detail = 'violation', 'run_code|storage-unreadable', '%r: %r' % (storage, e)
            return out
        blank = blank_bigmaps(st, want)
        if norm_value(got, st) != norm_value(blank, st):
            out.kind, out.sig = 'violation', 'run_code|returned-storage-differs'
            out.detail = 'storage (big maps blanked) %r, expected %r' % (got, blank)
            return out
        try:
            out.bigmaps_compared, bad = check_lazy_diff(stx, st, sv, want, storage, lazy_diff)
        except Exception as e:      # the diff has a shape the checker does not know: not judged
            out.bigmaps_compared, bad = 0, None
            out.lazy_diff_not_judged = repr(e)
        if bad:
            out.kind, out.sig, out.detail = 'violation', bad[0], bad[1]
    return out


def blank_bigmaps(t, v):
    p = t[0]
    if p == 'big_map':
        return []
    if p == 'pair':
        return (blank_bigmaps(t[1], v[0]), blank_bigmaps(t[2], v[1]))
    if p == 'option':
        return None if v is None else ('Some', blank_bigmaps(t[1], v[1]))
    if p == 'or':
        return (v[0], blank_bigmaps(t[1] if v[0] == 'L' else t[2], v[1]))
    if p == 'list':
        return [blank_bigmaps(t[1], x) for x in v]
    if p == 'map':
        return [(k, blank_bigmaps(t[2], x)) for k, x in v]
    return v


def bigmaps_of(t, v, path='$', out=None):
    """Model side: {path: (key type, value type, items)} of every big map in a model value."""
    out = {} if out is None else out
    p = t[0]
    if p == 'big_map':
        out[path] = (t[1], t[2], v[2] if isinstance(v, tuple) and v and v[0] == 'big_map' else v)
    elif p == 'pair':
        bigmaps_of(t[1], v[0], path + '.0', out)
        bigmaps_of(t[2], v[1], path + '.1', out)
    elif p == 'option' and v is not None:
        bigmaps_of(t[1], v[1], path + '.some', out)
    elif p == 'or':
        bigmaps_of(t[1] if v[0] == 'L' else t[2], v[1], path + ('.Left' if v[0] == 'L' else '.Right'), out)
    elif p == 'list':
        for i, x in enumerate(v):
            bigmaps_of(t[1], x, '%s[%d]' % (path, i), out)
    elif p == 'map':
        for i, (k, x) in enumerate(v):
            bigmaps_of(t[2], x, '%s[%d]' % (path, i), out)
    return out


def check_lazy_diff(stx, st, initial, final, returned_storage, lazy_diff):
    """The lazy storage diff of a finished call, applied to what each big map held before the call, must give what the
    reference interpreter holds at the same place of the final storage; every entry must carry the script-expression hash
    of its packed key. -> (number of big maps compared, None | (signature, detail))"""
    nodes = {}
    map_bigmaps(stx, returned_storage, lambda path, texpr, node: nodes.setdefault(path, node))
    before, after = bigmaps_of(st, initial), bigmaps_of(st, final)
    by_id = {}
    for d in lazy_diff or []:
        if d.get('kind') == 'big_map':
            by_id.setdefault(str(d.get('id')), []).append(d.get('diff') or {})
    compared = 0
    for path, (kt, vt, items) in after.items():
        node = nodes.get(path)
        want = {repr(norm_value(k, kt)): norm_value(x, vt) for k, x in items}
        if isinstance(node, dict) and 'int' in node:
            diffs = by_id.get(node['int'], [])
            if any(d.get('action') not in ('alloc', 'update') for d in diffs):
                continue          # copy / remove actions: not modelled
            cur = {}
            if not any(d.get('action') == 'alloc' for d in diffs):
                cur = {repr(norm_value(k, kt)): norm_value(x, vt) for k, x in before.get(path, (kt, vt, []))[2]}
            for d in diffs:
                for u in d.get('updates') or []:
                    try:
                        k = P.parse(u['key'], kt)
                    except Exception as e:
                        return compared, ('lazy-diff|key-unreadable', '%r: %r' % (u.get('key'), e))
                    # combs of four or more leaves: the property does not fix the layout the hash is taken over (see C15)
                    cands = {P.key_hash_of(k, kt), P.script_expr_hash(b'\x05' + MB.encode(P.render(k, kt, 'legacy_optimized')))}
                    if u.get('key_hash') not in cands:
                        return compared, ('lazy-diff|key-hash', 'key %r of type %s carries %s, its script-expression hash is %s'
                                          % (u['key'], T.show(kt), u.get('key_hash'), sorted(cands)))
                    if u.get('value') is None:
                        cur.pop(repr(norm_value(k, kt)), None)
                    else:
                        try:
                            cur[repr(norm_value(k, kt))] = norm_value(P.parse(u['value'], vt), vt)
                        except Exception as e:
                            return compared, ('lazy-diff|value-unreadable', '%r: %r' % (u.get('value'), e))
        elif isinstance(node, list):
            try:
                cur = {repr(norm_value(k, kt)): norm_value(x, vt) for k, x in P.parse(node, ('map', kt, vt))}
            except Exception as e:
                return compared, ('lazy-diff|literal-unreadable', repr(e))
        else:
            continue
        compared += 1
        if cur != want:
            missing = sorted(set(want) - set(cur))[:2]
            extra = sorted(set(cur) - set(want))[:2]
            wrong = sorted(k for k in set(cur) & set(want) if cur[k] != want[k])[:2]
            return compared, ('lazy-diff|contents-differ', 'big map at %s: after applying the diff %d entries, the reference holds %d; missing %r, '
                              'unexpected %r, different %r' % (path, len(cur), len(want), missing, extra, wrong))
    return compared, None


def self_consistency(mon, budget=20000):
    """Sanitizer-style invariant on the live objects the hook kept: at every node of every value that was ever on the stack,
    the types the container class declares for its components are the types of the components it actually holds
    (X.conformance_errors of the object against its own declared type). Each distinct object is walked once.
    -> (objects walked, None | (signature, detail))"""
    seen = set()
    walked = 0
    for idx, objs in enumerate(mon.objects):
        for j, obj in enumerate(objs):
            if id(obj) in seen:
                continue
            seen.add(id(obj))
            if walked >= budget:
                return walked, None
            walked += 1
            try:
                decl = X.type_of_class(type(obj))
            except X.ExtractError as e:
                return walked, ('%s|deep-type|class' % mon.events[idx][0], 'slot %d after instruction #%d: %s' % (j, idx, e))
            errs = X.conformance_errors(obj, decl)
            if errs:
                path, exp, found, how = errs[0]
                return walked, ('%s|deep-type|%s' % (mon.events[idx][0], how),
                                'slot %d after instruction #%d %s, at %s: the container declares %s, the component is %s'
                                % (j, idx, mon.events[idx][0], path, T.show(exp), found if isinstance(found, str) else T.show(found)))
    return walked, None
