"""Entry point: python -m rv.check <ID> [--tier quick|thorough] [--replay F] [--shard i/n --out F]"""
import argparse
import importlib
import json
import os
import sys
import traceback


def main():
    ap = argparse.ArgumentParser()
    ap.add_argument('pid')
    ap.add_argument('--tier', default=None)
    ap.add_argument('--replay', default=None)
    ap.add_argument('--shard', default=None)
    ap.add_argument('--out', default=None)
    ap.add_argument('--shards', type=int, default=None)
    a = ap.parse_args()
    if os.environ.get('PYTHONHASHSEED') != '0':
        os.environ['PYTHONHASHSEED'] = '0'
        os.execv(sys.executable, [sys.executable, '-m', 'rv.check'] + sys.argv[1:])
    tier = a.tier or os.environ.get('VERIF_TIER') or 'quick'
    if tier not in ('quick', 'thorough'):
        tier = 'quick'
    try:
        seed = int(os.environ.get('VERIF_SEED', '0'))
    except ValueError:
        seed = 0
    pid = a.pid.upper()

    from rv.core import harness as H
    err = H.bootstrap_repo()
    mod = importlib.import_module('rv.checks.' + pid.lower())
    level = mod.LEVEL
    shards_cfg = getattr(mod, 'SHARDS', {'quick': 1, 'thorough': 8})
    nsh = a.shards or int(os.environ.get('VERIF_SHARDS', 0)) or shards_cfg.get(tier, 1)
    if err:
        ctx = H.Ctx(pid, tier, seed, level)
        ctx.inconclusive.append(err)
        ctx.evaluations = 0
        sys.exit(ctx.finish())

    if a.replay:
        ctx = H.Ctx(pid, tier, seed, level)
        doc = json.load(open(a.replay))
        _install(mod, ctx)
        mod.replay(ctx, doc['case'])
        # a replay decides only the stored case; do not rewrite the property's evidence file
        bad = [v for v in ctx.violations]
        for v in bad:
            print('VIOLATION property=%s replay=%s\n  sig=%s\n  %s' % (pid, a.replay, v['sig'], str(v['detail'])[:800]))
        print('replay: %d violation(s)' % len(bad))
        sys.exit(1 if bad else 0)

    if a.shard:
        i, n = map(int, a.shard.split('/'))
        ctx = H.Ctx(pid, tier, seed, level, i, n)
        _install(mod, ctx)
        _run(mod, ctx)
        with open(a.out, 'w') as f:
            json.dump(ctx.dump(), f, default=H.jdefault)
        sys.exit(0)

    ctx = H.Ctx(pid, tier, seed, level, 0, nsh)
    if True:
        nsh = max(nsh, 1)      # a single shard also runs in a child process: the wall-clock watchdog needs one
        timeout = getattr(mod, 'TIMEOUT', {}).get(tier, 900 if tier == 'quick' else 7200)
        for d, reason in H.run_shards(pid, tier, seed, nsh, timeout):
            if d is None:
                ctx.inconclusive.append(reason)
            else:
                ctx.merge(d)
    sys.exit(ctx.finish())


def _install(mod, ctx):
    from rv.hooks import netguard
    netguard.install(ctx)


def _run(mod, ctx):
    from rv.core.harness import HarnessAbort
    try:
        mod.run(ctx)
    except HarnessAbort as e:
        ctx.inconclusive.append('harness abort: %r' % (e,))
    except Exception:
        ctx.inconclusive.append('harness error: ' + traceback.format_exc()[-1500:].replace('\n', ' | '))


if __name__ == '__main__':
    main()
