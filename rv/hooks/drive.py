"""Drivers: build pytezos types/values from model ones, run Micheline programs through the real Interpreter."""
from rv.model import pack as P
from rv.model import types as T

_patched = {'done': False}


def patch_parser_passthrough():
    """Interpreter.execute(code) parses text; let it accept ready Micheline (list/dict) unchanged so generated programs
    do not depend on the text parser. Everything else in execute() (backup, restore, error handling) is the real code."""
    if _patched['done']:
        return
    import pytezos.michelson.repl as repl
    orig = repl.michelson_to_micheline

    def passthrough(code, *a, **k):
        if isinstance(code, (list, dict)):
            return code
        return orig(code, *a, **k)
    repl.michelson_to_micheline = passthrough
    _patched['done'] = True


def mk_type(t, annot=None):
    from pytezos.michelson.types.base import MichelsonType
    return MichelsonType.match(T.to_micheline(t, annot))


def mk_value(t, v, annot=None, mode='readable'):
    return mk_type(t, annot).from_micheline_value(P.render(v, t, mode))


_template = {}


def new_interpreter():
    """A fresh REPL interpreter. Interpreter.__init__ builds a yacc parser (4 ms); it is run once, later instances are
    shallow copies of that template reset by the real Interpreter.reset() (fresh stack and context, shared parser)."""
    import copy
    from pytezos.michelson.repl import Interpreter
    patch_parser_passthrough()
    if 't' not in _template:
        _template['t'] = Interpreter()
    it = copy.copy(_template['t'])
    it.reset()
    return it


def push(t, v, annot=None):
    return {'prim': 'PUSH', 'args': [T.to_micheline(t, annot), P.render(v, t, 'readable')]}
