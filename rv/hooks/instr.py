"""Instruction hook: wraps the `execute` classmethod of every registered MichelsonInstruction class (inherited by the
per-occurrence subclasses pytezos creates). Records, never raises (except the logical step bound, a BaseException)."""
from rv.core.harness import HarnessAbort
from rv.hooks import extract as X

STATE = {'monitor': None, 'installed': 0, 'classes': 0}


class Monitor:
    def __init__(self, step_limit=200000, snapshots=True, keep_objects=False, window=None, node_budget=None):
        self.window = window           # None: every slot is extracted; K: only the slots around the active top (the others as ('deep', None))
        self.node_budget = node_budget  # bound on the total size of extracted values per run (memory guard); None: unbounded
        self.nodes = 0
        self.events = []           # (prim, snapshot | None)
        self.entered = 0
        self.step_limit = step_limit
        self.snapshots = snapshots
        self.keep_objects = keep_objects
        self.objects = []          # parallel to events when keep_objects: list of live objects of the frame
        self.failwith = None       # (type, value) popped by FAILWITH
        self.failwith_error = None
        self.raised = []           # (prim, exception) innermost first
        self.failpoint = None      # callable(kind, prim, index) -> exception to raise or None
        self.prims = {}

    def snapshot(self, stack):
        out = []
        lo = hi = None
        if self.window is not None:
            lo, hi = max(0, stack.protected - 1), stack.protected + self.window
        for i, obj in enumerate(stack.items):
            if lo is not None and not lo <= i < hi:
                out.append(('deep', None))
                continue
            try:
                v = X.value_of(obj)
                out.append((X.type_of_class(type(obj)), v))
                if self.node_budget is not None:
                    self.nodes += approx_size(v)
            except Exception as e:   # noqa
                out.append(('extract-error', '%s: %s' % (type(e).__name__, e)))
        if self.node_budget is not None and self.nodes > self.node_budget:
            raise HarnessAbort('snapshot budget')
        return out


def approx_size(v):
    if isinstance(v, (tuple, list)):
        n = 1
        for x in v:
            n += approx_size(x)
        return n
    if isinstance(v, dict):
        return 1 + sum(approx_size(x) for x in v.values())
    return 1


def _wrap(orig):
    def execute(cls, stack, stdout, context):
        mon = STATE['monitor']
        if mon is None:
            return orig(cls, stack, stdout, context)
        prim = cls.prim
        mon.entered += 1
        mon.prims[prim] = mon.prims.get(prim, 0) + 1
        if mon.entered > mon.step_limit:
            raise HarnessAbort('step limit')
        if mon.failpoint is not None:
            exc = mon.failpoint('enter', prim, mon.entered)
            if exc is not None:
                raise exc
        if prim == 'FAILWITH':
            try:
                top = stack.items[stack.protected]
                mon.failwith = (X.type_of_class(type(top)), X.value_of(top))
            except Exception as e:
                mon.failwith_error = repr(e)
        try:
            res = orig(cls, stack, stdout, context)
        except HarnessAbort:
            raise
        except BaseException as e:
            mon.raised.append((prim, e))
            raise
        if mon.snapshots:
            mon.events.append((prim, mon.snapshot(stack)))
            if mon.keep_objects:
                mon.objects.append(list(stack.items))
        else:
            mon.events.append((prim, None))
        if mon.failpoint is not None:
            exc = mon.failpoint('exit', prim, mon.entered)
            if exc is not None:
                raise exc
        return res
    return execute


def install():
    """Idempotent. Returns number of instruction classes hooked."""
    if STATE['installed']:
        return STATE['classes']
    from pytezos.michelson.instructions.base import MichelsonInstruction
    from pytezos.michelson.micheline import Micheline
    import pytezos.michelson.instructions  # noqa: registers all instruction classes
    import pytezos.michelson.repl  # noqa
    n = 0
    for key, cls in list(Micheline.classes.items()):
        if isinstance(cls, type) and issubclass(cls, MichelsonInstruction) and 'execute' in cls.__dict__:
            raw = cls.__dict__['execute']
            fn = raw.__func__ if isinstance(raw, classmethod) else raw
            setattr(cls, 'execute', classmethod(_wrap(fn)))
            n += 1
    STATE['installed'] = 1
    STATE['classes'] = n
    return n


class monitoring:
    def __init__(self, **kw):
        self.mon = Monitor(**kw)

    def __enter__(self):
        install()
        STATE['monitor'] = self.mon
        return self.mon

    def __exit__(self, *a):
        STATE['monitor'] = None
        return False
