"""Audit hook: any real network attempt during a check makes the run inconclusive (a mock was bypassed)."""
import sys

_state = {'ctx': None, 'installed': False}


def _hook(event, args):
    if event in ('socket.connect', 'socket.getaddrinfo', 'socket.sendto'):
        ctx = _state['ctx']
        if ctx is not None:
            ctx.inconc('network attempt %s %r' % (event, args[1:] if event == 'socket.connect' else args[:2]))


def install(ctx):
    _state['ctx'] = ctx
    if not _state['installed']:
        sys.addaudithook(_hook)
        _state['installed'] = True
