"""MichelsonStack hook: counts stack operations (push/pop/protect/restore) for failpoint positions and checks the
protected-prefix invariant 0 <= protected <= len(items). Records, raises only injected failures."""
STATE = {'monitor': None, 'installed': False}


class StackMonitor:
    def __init__(self):
        self.ops = 0
        self.fail_at = None      # raise at the k-th stack operation (1-based), before it takes effect
        self.violations = []

    def tick(self, stack, name):
        self.ops += 1
        if not (0 <= stack.protected <= len(stack.items)):
            self.violations.append('protected=%d len=%d in %s' % (stack.protected, len(stack.items), name))
        if self.fail_at is not None and self.ops == self.fail_at:
            from pytezos.michelson.micheline import MichelsonRuntimeError
            raise MichelsonRuntimeError('INJECTED', 'stack operation %d (%s)' % (self.ops, name))


def install():
    if STATE['installed']:
        return
    from pytezos.michelson.stack import MichelsonStack
    for name in ('push', 'pop', 'protect', 'restore'):
        orig = getattr(MichelsonStack, name)

        def make(orig, name):
            def wrapped(self, *a, **k):
                mon = STATE['monitor']
                if mon is not None:
                    mon.tick(self, name)
                return orig(self, *a, **k)
            wrapped.__name__ = name
            return wrapped
        setattr(MichelsonStack, name, make(orig, name))
    STATE['installed'] = True


class monitoring:
    def __init__(self, fail_at=None):
        self.mon = StackMonitor()
        self.mon.fail_at = fail_at

    def __enter__(self):
        install()
        STATE['monitor'] = self.mon
        return self.mon

    def __exit__(self, *a):
        STATE['monitor'] = None
        return False
