"""Structural extractor: live pytezos runtime objects -> model types / model values.
Reads the objects' own fields (.value .items .item .ticketer .amount, class prim/args); never calls the serializers
(to_micheline_value / as_micheline_expr for data), so serializer defects cannot masquerade as interpreter defects."""
from rv.model import pack as P


class ExtractError(Exception):
    pass


def type_of_class(cls):
    """Model type from a pytezos type class (annotations ignored)."""
    prim = getattr(cls, 'prim', None)
    if prim is None:
        raise ExtractError('class without prim: %r' % (cls,))
    args = [a for a in (getattr(cls, 'args', None) or []) if hasattr(a, 'prim')]
    if prim == 'pair' and len(args) != 2:
        raise ExtractError('pair class with %d args' % len(args))
    return (prim,) + tuple(type_of_class(a) for a in args)


STRINGY = {'chain_id', 'key_hash', 'key', 'signature', 'address', 'contract'}


def value_of(obj):
    """Model value of a live pytezos value (type-directed by the object's own class)."""
    prim = getattr(obj, 'prim', None)
    try:
        if prim == 'unit':
            return ()
        if prim == 'bool':
            return bool(obj.value)
        if prim in ('int', 'nat', 'mutez', 'timestamp', 'bls12_381_fr'):
            v = obj.value
            if not isinstance(v, int) or isinstance(v, bool):
                raise ExtractError('%s holds %r' % (prim, v))
            return v
        if prim == 'string':
            if not isinstance(obj.value, str):
                raise ExtractError('string holds %r' % (obj.value,))
            return obj.value
        if prim in ('bytes', 'bls12_381_g1', 'bls12_381_g2', 'chest', 'chest_key'):
            if not isinstance(obj.value, (bytes, bytearray)):
                raise ExtractError('%s holds %r' % (prim, obj.value))
            return bytes(obj.value)
        if prim in STRINGY:
            return P.parse({'string': obj.value}, (prim,) if prim != 'contract' else ('address',))
        if prim == 'pair':
            if len(obj.items) != 2:
                raise ExtractError('pair value with %d items' % len(obj.items))
            return (value_of(obj.items[0]), value_of(obj.items[1]))
        if prim == 'option':
            return None if obj.item is None else ('Some', value_of(obj.item))
        if prim == 'or':
            l, r = obj.items
            lp, rp = hasattr(l, 'prim'), hasattr(r, 'prim')
            if lp == rp:
                raise ExtractError('or value with both/neither branch')
            return ('L', value_of(l)) if lp else ('R', value_of(r))
        if prim in ('list', 'set'):
            return [value_of(x) for x in obj.items]
        if prim == 'map':
            return [(value_of(k), value_of(v)) for k, v in obj.items]
        if prim == 'big_map':
            return ('big_map', obj.ptr, [(value_of(k), value_of(v)) for k, v in obj.items],
                    [value_of(k) for k in (obj.removed_keys or [])])
        if prim == 'lambda':
            return obj.value.as_micheline_expr()
        if prim == 'ticket':
            return (P.address_from_str(obj.ticketer), value_of(obj.item), obj.amount)
        if prim == 'operation':
            return ('operation', obj.content)
    except P.ParseError as e:
        raise ExtractError('%s: %s' % (prim, e))
    raise ExtractError('cannot extract %r (prim %r)' % (obj, prim))


def runtime_type(obj):
    """Type as the *runtime object graph* shows it: class prim at every node, children from live items where they
    exist, class args where they do not (empty collection, None, the absent union branch)."""
    cls = type(obj)
    prim = obj.prim
    decl = type_of_class(cls)
    if prim == 'pair':
        return ('pair', runtime_type(obj.items[0]), runtime_type(obj.items[1]))
    if prim == 'option':
        return ('option', runtime_type(obj.item) if obj.item is not None else decl[1])
    if prim == 'or':
        l, r = obj.items
        return ('or', runtime_type(l) if hasattr(l, 'prim') else decl[1], runtime_type(r) if hasattr(r, 'prim') else decl[2])
    if prim in ('list', 'set'):
        return (prim, runtime_type(obj.items[0]) if obj.items else decl[1])
    if prim in ('map', 'big_map'):
        if obj.items:
            k, v = obj.items[0]
            return (prim, runtime_type(k), runtime_type(v))
        return decl
    if prim == 'ticket':
        return ('ticket', runtime_type(obj.item))
    return decl


def conformance_errors(obj, expected, path='$', out=None):
    """Deep conformance (C02): at every node both the declared class type and the live children must have the expected
    static type. Returns list of (path, expected, found, how)."""
    if out is None:
        out = []
    try:
        decl = type_of_class(type(obj))
    except ExtractError as e:
        out.append((path, expected, repr(e), 'class'))
        return out
    if decl != expected:
        out.append((path, expected, decl, 'declared'))
        if decl[0] != expected[0]:
            return out
    prim = expected[0]
    if prim == 'pair':
        if len(obj.items) != 2:
            out.append((path, expected, 'pair with %d items' % len(obj.items), 'shape'))
            return out
        conformance_errors(obj.items[0], expected[1], path + '.0', out)
        conformance_errors(obj.items[1], expected[2], path + '.1', out)
    elif prim == 'option':
        if obj.item is not None:
            conformance_errors(obj.item, expected[1], path + '.some', out)
    elif prim == 'or':
        l, r = obj.items
        if hasattr(l, 'prim'):
            conformance_errors(l, expected[1], path + '.left', out)
        if hasattr(r, 'prim'):
            conformance_errors(r, expected[2], path + '.right', out)
    elif prim in ('list', 'set'):
        for i, x in enumerate(obj.items[:8]):
            conformance_errors(x, expected[1], '%s[%d]' % (path, i), out)
    elif prim in ('map', 'big_map'):
        for i, (k, v) in enumerate(obj.items[:8]):
            conformance_errors(k, expected[1], '%s.key[%d]' % (path, i), out)
            conformance_errors(v, expected[2], '%s.val[%d]' % (path, i), out)
    elif prim == 'ticket':
        conformance_errors(obj.item, expected[1], path + '.contents', out)
    return out
