"""Scripted in-process transport for pytezos.rpc.node: records the client-boundary history
(every HTTP request with its target URL, every sleep on a virtual clock). No real network, no real sleeping."""
import json as _json
import types

import requests


def make_response(status, body=None, text=None, ctype='application/json', url=''):
    r = requests.Response()
    r.status_code = status
    if text is None:
        text = _json.dumps(body)
    r._content = text.encode()
    r.encoding = 'utf-8'
    if ctype:
        r.headers['content-type'] = ctype
    r.url = url
    return r


class Transport:
    """handler(method, url, kwargs) -> Response | raises. Log entries: ('req', method, url, kwargs) / ('sleep', d)."""

    def __init__(self, handler):
        self.handler = handler
        self.log = []
        self.clock = 0.0

    def request(self, method=None, url=None, **kwargs):
        self.log.append(('req', method, url, {k: v for k, v in kwargs.items() if k in ('json', 'params', 'data')}))
        return self.handler(method, url, kwargs)

    def sleep(self, d):
        self.log.append(('sleep', d))
        self.clock += d

    @property
    def requests(self):
        return [e for e in self.log if e[0] == 'req']

    @property
    def sleeps(self):
        return [e[1] for e in self.log if e[0] == 'sleep']


class installed:
    """Context manager: replace the `requests` name and `sleep` inside pytezos.rpc.node."""

    def __init__(self, transport):
        self.t = transport

    def __enter__(self):
        import pytezos.rpc.node as node
        self.node = node
        self.saved = (node.requests, node.sleep)
        node.requests = types.SimpleNamespace(request=self.t.request, Response=requests.Response,
                                              exceptions=requests.exceptions)
        node.sleep = self.t.sleep
        return self.t

    def __exit__(self, *a):
        self.node.requests, self.node.sleep = self.saved
        return False


def hooks_reached():
    """True when pytezos.rpc.node still looks up `requests.request` and `sleep` the way the hook assumes."""
    import pytezos.rpc.node as node
    return hasattr(node, 'requests') and hasattr(node, 'sleep')
