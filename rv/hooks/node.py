"""Simulated Tezos node behind the scripted transport (rv.hooks.rpc): account counter, mempool, head, constants,
run_operation simulation with chosen consumptions, injection endpoint that decodes the injected bytes with the independent
operation decoder and logs them. Used by C24 and C25."""
import json as _json
import re

from rv.hooks import rpc as R
from rv.model import base58 as B
from rv.model import opbin as OB

PROTOCOL = 'PtSeouLouXkxhg39oWzjxDWaCydNfR3RxCUrNe4Q9Ro8BTehcbh'
CONSTANTS = {'hard_gas_limit_per_operation': '1040000', 'hard_storage_limit_per_operation': '60000', 'cost_per_byte': '250',
             'minimal_block_delay': '8', 'origination_size': 257, 'hard_gas_limit_per_block': '1386666'}


class Node:
    def __init__(self, pkh, counter=0, sim=None):
        self.pkh = pkh
        self.counter = counter            # counter of the last applied operation of the account
        self.mempool = []                 # pending groups: {'hash','branch','contents'}
        self.foreign_pending = []         # pending groups of other accounts
        self.injected = []                # log: {'contents', 'node_counter', 'pending_before', 'raw', 'accepted'}
        self.requests = []
        self.sim = sim or (lambda content: {'consumed_milligas': '1000000'})
        self.fail_next_injection = None   # a status/body to answer the next injection with
        self.level = 1000
        self.chain_id = B.encode(b'\x7a\x06\xa7\x70', 'Net')
        self.unknown = []
        self.counter_at = {self.level: counter}      # counter in the context of every block produced so far

    def block_hash(self, offset=0):
        return B.encode((self.level - offset).to_bytes(32, 'big'), 'B')

    def pending_of_account(self):
        return sum(1 for g in self.mempool for c in g['contents'] if c.get('source') == self.pkh)

    def bake(self):
        """The node applies a block: every pending operation of the account is included."""
        for g in self.mempool:
            self.counter += sum(1 for c in g['contents'] if c.get('source') == self.pkh)
        self.mempool = []
        self.level += 1
        self.counter_at[self.level] = self.counter

    def level_of(self, ref):
        """Level a block reference denotes: head, head~n, head-n or the hash of a block this node has produced."""
        if ref.startswith('head'):
            return self.level - int(re.sub(r'\D', '', ref) or 0)
        try:
            return int.from_bytes(B.decode(ref, 'B'), 'big')
        except Exception:
            return self.level

    def counter_as_of(self, ref):
        """The account's counter in the context of the referenced block (a node answers about the block it is asked about)."""
        lvl = self.level_of(ref)
        known = [l for l in self.counter_at if l <= lvl]
        return self.counter_at[max(known)] if known else self.counter_at[min(self.counter_at)]

    # -- transport handler ----------------------------------------------------------------------------------------------
    def handler(self, method, url, kwargs):
        path = re.sub(r'^https?://[^/]+', '', url).split('?')[0].rstrip('/')
        self.requests.append((method, path))
        ok = lambda body: R.make_response(200, body, url=url)
        m = re.match(r'^/chains/main/blocks/(head[~\-]?\d*|[A-Za-z0-9]+)/hash$', path)
        if m:
            ref = m.group(1)
            off = int(re.sub(r'\D', '', ref) or 0) if ref.startswith('head') else 0
            return ok(self.block_hash(off))
        if re.match(r'^/chains/main/blocks/[^/]+/context/constants$', path):
            return ok(CONSTANTS)
        if path == '/version':
            return ok({'version': {'major': 22, 'minor': 0}, 'network_version': {'chain_name': 'TEZOS_MAINNET', 'distributed_db_version': 2, 'p2p_version': 1}})
        if path == '/chains/main/chain_id':
            return ok(self.chain_id)
        m = re.match(r'^/chains/main/blocks/([^/]+)/header$', path)
        if m:
            lvl = self.level_of(m.group(1))
            return ok({'protocol': PROTOCOL, 'level': lvl, 'hash': self.block_hash(self.level - lvl), 'chain_id': self.chain_id,
                       'timestamp': '2026-01-01T00:00:00Z'})
        m = re.match(r'^/chains/main/blocks/([^/]+)$', path)
        if m:
            lvl = self.level_of(m.group(1))
            return ok({'protocol': PROTOCOL, 'chain_id': self.chain_id, 'hash': self.block_hash(self.level - lvl),
                       'header': {'level': lvl, 'timestamp': '2026-01-01T00:00:00Z'}, 'metadata': {'level_info': {'level': lvl}}})
        m = re.match(r'^/chains/main/blocks/[^/]+/context/contracts/(KT1[A-Za-z0-9]+)/script$', path)
        if m:
            # every originated address holds the same trivial contract (parameter nat, storage nat)
            return ok({'code': [{'prim': 'parameter', 'args': [{'prim': 'nat'}]}, {'prim': 'storage', 'args': [{'prim': 'nat'}]},
                                {'prim': 'code', 'args': [[{'prim': 'CAR'}, {'prim': 'NIL', 'args': [{'prim': 'operation'}]}, {'prim': 'PAIR'}]]}],
                       'storage': {'int': '0'}})
        m = re.match(r'^/chains/main/blocks/([^/]+)/context/contracts/([A-Za-z0-9]+)$', path)
        if m:
            return ok({'balance': '1000000000000', 'counter': str(self.counter_as_of(m.group(1)) if m.group(2) == self.pkh else 0)})
        m = re.match(r'^/chains/main/blocks/([^/]+)/context/contracts/([A-Za-z0-9]+)/counter$', path)
        if m:
            return ok(str(self.counter_as_of(m.group(1)) if m.group(2) == self.pkh else 0))
        if path == '/chains/main/mempool/pending_operations':
            # where a pending group is listed depends on how far the node got with it: validated groups under `applied`, groups
            # injected asynchronously and not looked at yet under `unprocessed` (as objects, or as [hash, operation] pairs)
            pol = getattr(self, 'mempool_policy', 'applied')
            applied, unprocessed = [], []
            for i, g in enumerate(self.mempool):
                if pol == 'applied' or (pol == 'alternate' and i % 2 == 0):
                    applied.append(g)
                elif pol == 'unprocessed-pairs':
                    unprocessed.append([g['hash'], {k: v for k, v in g.items() if k != 'hash'}])
                else:
                    unprocessed.append(g)
            applied = applied + (self.foreign_pending if pol != 'unprocessed-nothing-applied' else [])
            if pol == 'unprocessed-nothing-applied':
                unprocessed = unprocessed + self.foreign_pending
            return ok({'applied': applied, 'validated': applied, 'refused': [],
                       'outdated': [], 'branch_refused': [], 'branch_delayed': [], 'unprocessed': unprocessed})
        if re.match(r'^/chains/main/blocks/[^/]+/helpers/scripts/run_operation$', path):
            op = kwargs.get('json', {}).get('operation', {})
            contents = []
            for c in op.get('contents', []):
                c = dict(c)
                res = dict(self.sim(c))
                res.setdefault('status', 'applied')
                c['metadata'] = {'operation_result': res, 'balance_updates': []}
                contents.append(c)
            return ok({'contents': contents, 'signature': op.get('signature')})
        if path == '/injection/operation':
            raw = bytes.fromhex(kwargs.get('json'))
            if self.fail_next_injection is not None:
                status, body = self.fail_next_injection
                self.fail_next_injection = None
                self.injected.append({'raw': raw.hex(), 'accepted': False, 'node_counter': self.counter, 'pending_before': self.pending_of_account()})
                return R.make_response(status, body, url=url)
            rec = {'raw': raw.hex(), 'accepted': True, 'node_counter': self.counter, 'pending_before': self.pending_of_account()}
            for siglen in (64, 96):
                try:
                    g = OB.decode_group(raw[:-siglen])
                    rec['contents'] = g['contents']
                    rec['signature_length'] = siglen
                    rec['branch'] = g['branch']
                    break
                except Exception as e:
                    rec['decode_error'] = repr(e)
            self.injected.append(rec)
            import hashlib
            h = B.encode(hashlib.blake2b(raw, digest_size=32).digest(), 'o')
            if 'contents' in rec:
                self.mempool.append({'hash': h, 'branch': rec['branch'], 'contents': [dict(c, counter=str(c.get('counter', 0)), fee=str(c.get('fee', 0)),
                                                                                          gas_limit=str(c.get('gas_limit', 0)), storage_limit=str(c.get('storage_limit', 0))) for c in rec['contents']]})
            return ok(h)
        self.unknown.append((method, path))
        return R.make_response(404, text='simulated node: no such endpoint ' + path, ctype='text/plain', url=url)
