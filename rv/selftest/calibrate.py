"""Calibration: the reference interpreter is run on the Octez regression vectors shipped with the repository's tests
(tests/unit_tests/test_michelson/test_repl/test_opcodes.py + opcodes/*.tz, expected storages produced by Octez).
Every vector the model supports must give Octez's answer; otherwise every model-based check is inconclusive."""
import ast
import hashlib
import json
import os
import sys

from rv.core import harness as H

# Vectors never used for calibration, each with its reason (never "the model disagrees").
EXCLUDED = {
    'lambda_rec.tz': 'written by the pytezos authors, not an Octez vector; pins LAMBDA_REC bodies to run on lambda:arg, '
                     'contradicting the Michelson reference and Octez\'s own rec_fact.tz / rec_id_unit.tz',
}
TEST_DIR = os.path.join(H.REPO, 'tests', 'unit_tests', 'test_michelson', 'test_repl')


def load_vectors():
    src = open(os.path.join(TEST_DIR, 'test_opcodes.py')).read()
    tree = ast.parse(src)
    ns = {}
    for node in tree.body:
        if isinstance(node, ast.Assign) and all(isinstance(t, ast.Name) for t in node.targets):
            try:
                exec(compile(ast.Module([node], []), 'consts', 'exec'), ns)
            except Exception:
                pass
    out = []
    for cls in [n for n in tree.body if isinstance(n, ast.ClassDef)]:
        for fn in [n for n in cls.body if isinstance(n, ast.FunctionDef)]:
            for dec in fn.decorator_list:
                if isinstance(dec, ast.Call) and dec.args and isinstance(dec.args[0], ast.List):
                    try:
                        rows = eval(compile(ast.Expression(dec.args[0]), 'rows', 'eval'), ns)
                    except Exception:
                        continue
                    for r in rows:
                        if isinstance(r, tuple) and len(r) == 4 and all(isinstance(x, str) for x in r):
                            out.append((fn.name,) + r)
    return out, ns


def run_vector(parser, fname, storage, parameter, expected, ns, must_fail=False):
    from pytezos.michelson.parse import michelson_to_micheline
    from rv.model import interp as I
    from rv.model import pack as P
    from rv.model import types as T
    script = michelson_to_micheline(open(os.path.join(TEST_DIR, 'opcodes', fname)).read(), parser=parser)
    sec = {s['prim']: s['args'][0] for s in script if isinstance(s, dict) and s.get('prim') in ('parameter', 'storage', 'code')}
    pt, st = I.ty(sec['parameter']), I.ty(sec['storage'])
    for t in (pt, st):
        for bad in ('big_map', 'sapling_state', 'ticket', 'contract', 'operation'):
            if T.contains(t, bad):
                return 'skipped', 'storage/parameter type contains ' + bad
    try:
        pv = P.parse(michelson_to_micheline(parameter, parser=parser), pt)
        sv = P.parse(michelson_to_micheline(storage, parameter if False else parser), st)
        ev = None if must_fail else P.parse(michelson_to_micheline(expected, parser=parser), st)
    except (P.ParseError, P.Uncertain) as e:
        return 'skipped', 'literal outside the model: %s' % e
    env = {'balance': ns.get('BALANCE', 0), 'total_voting_power': ns.get('TOTAL_VOTING_POWER', 0),
           'min_block_time': ns.get('MIN_BLOCK_TIME', 1),
           'voting_power': {P.kh_from_b58(ns['KEY_HASH']): ns.get('VOTING_POWER', 0)} if 'KEY_HASH' in ns else {},
           'chain_id': P.parse({'string': ns['CHAIN_ID']}, T.CHAIN_ID) if 'CHAIN_ID' in ns else bytes(4)}
    r = I.run(sec['code'], [(T.pair(pt, st), (pv, sv))], env, record=False)
    if r.kind == 'unsupported':
        return 'skipped', 'instruction outside the model: %s' % r.detail
    if must_fail:
        if r.kind in ('failwith', 'runtime'):
            return 'agree', ''
        return 'disagree', 'Octez fails, model: %s %s' % (r.kind, r.detail or r.stack)
    if r.kind != 'ok':
        return 'disagree', '%s %s' % (r.kind, r.detail or r.value)
    if len(r.stack) != 1 or r.stack[0][0][0] != 'pair':
        return 'disagree', 'final stack %r' % (r.stack,)
    got = r.stack[0][1][1]
    if got != ev:
        return 'disagree', 'storage %r, Octez %r' % (got, ev)
    return 'agree', ''


def compute():
    from pytezos.michelson.parse import MichelsonParser
    parser = MichelsonParser()
    vectors, ns = load_vectors()
    res = {'vectors': len(vectors), 'agree': 0, 'skipped': {}, 'excluded': {}, 'disagree': []}
    for tname, fname, storage, parameter, expected in vectors:
        if fname in EXCLUDED:
            res['excluded'][fname] = EXCLUDED[fname]
            continue
        try:
            st, why = run_vector(parser, fname, storage, parameter, expected, ns, must_fail=(tname == 'test_failed_opcodes'))
        except FileNotFoundError:
            st, why = 'skipped', 'script file missing'
        except Exception as e:
            st, why = 'skipped', 'harness: %s: %s' % (type(e).__name__, str(e)[:80])
        if st == 'agree':
            res['agree'] += 1
        elif st == 'skipped':
            key = why.split(':')[0] if not why.startswith('instruction') else why
            res['skipped'][key] = res['skipped'].get(key, 0) + 1
        else:
            res['disagree'].append([fname, storage[:60], parameter[:60], why[:200]])
    res['ok'] = not res['disagree'] and res['agree'] >= 150
    return res


def _digest():
    h = hashlib.sha256()
    for root in (os.path.join(H.VERIF, 'rv', 'model'), os.path.join(H.VERIF, 'rv', 'selftest')):
        for f in sorted(os.listdir(root)):
            if f.endswith('.py'):
                h.update(open(os.path.join(root, f), 'rb').read())
    h.update(open(os.path.join(TEST_DIR, 'test_opcodes.py'), 'rb').read())
    h.update(open(os.path.join(H.REPO, 'src', 'pytezos', 'michelson', 'macros.py'), 'rb').read())
    h.update(open(os.path.join(H.REPO, 'src', 'pytezos', 'michelson', 'parse.py'), 'rb').read())
    return h.hexdigest()[:24]


def ensure():
    """-> (ok, summary dict). Cached per source hash under /var/tmp."""
    cache = '/var/tmp/rv-calibration-%s.json' % _digest()
    if os.path.exists(cache):
        try:
            return (lambda r: (r['ok'], r))(json.load(open(cache)))
        except Exception:
            pass
    res = compute()
    try:
        tmp = cache + '.%d' % os.getpid()
        json.dump(res, open(tmp, 'w'))
        os.replace(tmp, cache)
    except OSError:
        pass
    return res['ok'], res


def main(quiet=False):
    err = H.bootstrap_repo()
    if err:
        print(err)
        return False
    res = compute()
    if not quiet or not res['ok']:
        print(json.dumps(res, indent=1)[:6000])
    print('calibration: %d vectors, %d agree with Octez, %d skipped, %d excluded, %d disagree -> %s'
          % (res['vectors'], res['agree'], sum(res['skipped'].values()), len(res['excluded']), len(res['disagree']),
             'ok' if res['ok'] else 'FAILED'))
    return res['ok']


if __name__ == '__main__':
    sys.exit(0 if main() else 1)
