"""setup_cmd: nothing to build (pure Python, /venv has every dependency); sanity-check the environment offline."""
import importlib
import os
import sys


def main():
    from rv.core import harness as H
    err = H.bootstrap_repo()
    if err:
        print('setup: ' + err)
        sys.exit(1)
    for m in ('requests', 'cryptography', 'py_ecc', 'jsonschema'):
        importlib.import_module(m)
    os.makedirs(os.path.join(H.VERIF, 'evidence'), exist_ok=True)
    os.makedirs(os.path.join(H.VERIF, 'replays'), exist_ok=True)
    try:
        from rv.selftest import calibrate
    except ImportError:
        calibrate = None
    if calibrate is not None:
        ok = calibrate.main(quiet=True)
        if not ok:
            print('setup: model calibration failed')
            sys.exit(1)
    print('setup ok: pytezos from', os.path.dirname(importlib.import_module('pytezos').__file__))


if __name__ == '__main__':
    main()
