"""Reference Michelson interpreter over model values (independent of pytezos; see DESIGN §4.4 and Appendix A).

run(code, stack, env) -> Result(kind, stack|value, events)
  kind: 'ok' | 'failwith' | 'runtime' (mutez overflow/underflow, shift overflow) | 'unsupported' | 'model-error'
Stacks are lists of (type, value), top first. Events: (prim, snapshot-of-the-current-frame-stack) in post-order, one per
executed instruction, exactly what the instruction hook records on the real interpreter.
"""
import hashlib

from . import keccak
from . import order as O
from . import pack as P
from . import types as T

MAX_MUTEZ = 2 ** 63 - 1


class Failwith(Exception):
    def __init__(self, t, v):
        self.t, self.v = t, v


class RuntimeFail(Exception):
    pass


class Unsupported(Exception):
    pass


class ModelError(Exception):
    """The program is not well-typed for the model (generator defect): the case is inconclusive, never a violation."""


class StepLimit(Exception):
    pass


class Result:
    def __init__(self, kind, stack=None, value=None, events=None, detail=None):
        self.kind, self.stack, self.value, self.events, self.detail = kind, stack, value, events or [], detail


DEFAULT_ENV = {
    'amount': 0, 'balance': 0, 'now': 0, 'level': 1, 'min_block_time': 1, 'total_voting_power': 0, 'voting_power': {},
    'sender': (bytes(22), ''), 'source': (bytes(22), ''), 'chain_id': bytes(4),
    # dummy originated address of index 0: KT1 of Blake2b-160(32 zero bytes || 00000000)
    'self_address': (b'\x01' + hashlib.blake2b(bytes(36), digest_size=20).digest() + b'\x00', ''),
    'parameter': None,
}


def ensure(cond, msg):
    if not cond:
        raise ModelError(msg)


def ty(e):
    return T.from_micheline(strip_annots(e))


def strip_annots(e):
    if isinstance(e, list):
        return [strip_annots(x) for x in e]
    if isinstance(e, dict) and 'prim' in e:
        o = {'prim': e['prim']}
        if e.get('args'):
            o['args'] = [strip_annots(a) for a in e['args']]
        return o
    return e


def intarg(e):
    ensure(isinstance(e, dict) and 'int' in e, 'expected int argument')
    return int(e['int'])


class Machine:
    def __init__(self, env=None, events=None, max_steps=20000, record=True, oracle=None):
        self.oracle = oracle       # recorded events of the implementation: results of ADOPTED instructions are taken from it
        self.adopted = {}
        self.env = dict(DEFAULT_ENV)
        if env:
            self.env.update(env)
        self.events = events if events is not None else []
        self.steps = [0]
        self.max_steps = max_steps
        self.record = record

    # ---- frame -----------------------------------------------------------------------------------------------
    def run(self, code, stack):
        """stack: list of (type, value), top first. Returns Result."""
        frame = Frame(self, list(stack))
        try:
            frame.seq(code)
            return Result('ok', stack=frame.items, events=self.events)
        except Failwith as f:
            return Result('failwith', value=(f.t, f.v), events=self.events)
        except RuntimeFail as r:
            return Result('runtime', detail=str(r), events=self.events)
        except Unsupported as u:
            return Result('unsupported', detail=str(u), events=self.events)
        except StepLimit:
            return Result('unsupported', detail='step limit', events=self.events)
        except ModelError as m:
            return Result('model-error', detail=str(m), events=self.events)
        except (IndexError, KeyError, TypeError, ValueError, AssertionError) as m:
            return Result('model-error', detail='%s: %s' % (type(m).__name__, m), events=self.events)


class Frame:
    def __init__(self, m, items):
        self.m = m
        self.items = items      # full list of the frame: protected prefix + active part
        self.prot = 0
        self.note = None        # mechanism note attached to the next event (e.g. MAP over an empty collection)

    # stack primitives relative to the protected offset
    def push(self, t, v):
        self.items.insert(self.prot, (t, v))

    def pop(self):
        ensure(len(self.items) - self.prot >= 1, 'pop from empty stack')
        return self.items.pop(self.prot)

    def peek(self, i=0):
        ensure(len(self.items) - self.prot > i, 'stack too short')
        return self.items[self.prot + i]

    def seq(self, code):
        ensure(isinstance(code, list), 'expected a sequence')
        for ins in code:
            if isinstance(ins, list):
                self.seq(ins)
            else:
                self.instr(ins)

    def event(self, prim):
        if self.m.record:
            self.m.events.append((prim, list(self.items), self.note))
        self.note = None

    def instr(self, ins):
        self.m.steps[0] += 1
        if self.m.steps[0] > self.m.max_steps:
            raise StepLimit()
        prim = ins['prim']
        args = ins.get('args') or []
        h = getattr(self, 'i_' + prim, None)
        if h is None:
            if self.m.oracle is not None and prim in ADOPTED:
                self.adopt(prim)
                self.event(prim)
                return
            raise Unsupported(prim)
        h(args, ins)
        self.event(prim)

    def adopt(self, prim):
        """Instructions outside the modelled set (they build operations or ask the chain about other contracts): pop their
        operands, take the pushed slots from the implementation's own event at the same trace index. Nothing about them is
        judged; whatever they push is opaque to the rest of the run."""
        idx = len(self.m.events)
        if idx >= len(self.m.oracle):
            raise Unsupported('%s: the implementation stopped before this instruction' % prim)
        oprim, snap = self.m.oracle[idx][0], self.m.oracle[idx][1]
        if oprim != prim or snap is None:
            raise Unsupported('%s: the implementation executed %s here' % (prim, oprim))
        for _ in range(ADOPTED[prim]):
            self.pop()
        pushes = len(snap) - len(self.items)
        if pushes < 0 or pushes > 2:
            raise Unsupported('%s: stack depth cannot be aligned' % prim)
        new = snap[self.prot:self.prot + pushes]
        for t, v in reversed(new):
            if t == 'extract-error':
                raise Unsupported('%s: result not extractable: %s' % (prim, v))
            self.push(t, v)
        self.m.adopted[prim] = self.m.adopted.get(prim, 0) + 1

    # ---- stack ---------------------------------------------------------------------------------------------------
    def i_DROP(self, a, ins):
        n = intarg(a[0]) if a else 1
        for _ in range(n):
            self.pop()

    def i_DUP(self, a, ins):
        n = intarg(a[0]) if a else 1
        ensure(n >= 1, 'DUP 0')
        t, v = self.peek(n - 1)
        ensure(T.duplicable(t), 'DUP of non-duplicable')
        self.push(t, v)

    def i_SWAP(self, a, ins):
        x, y = self.pop(), self.pop()
        self.push(*x)
        self.push(*y)

    def i_DIG(self, a, ins):
        n = intarg(a[0])
        ensure(len(self.items) - self.prot > n, 'DIG too deep')
        x = self.items.pop(self.prot + n)
        self.items.insert(self.prot, x)

    def i_DUG(self, a, ins):
        n = intarg(a[0])
        ensure(len(self.items) - self.prot > n, 'DUG too deep')
        x = self.items.pop(self.prot)
        self.items.insert(self.prot + n, x)

    def i_PUSH(self, a, ins):
        t = ty(a[0])
        try:
            v = P.parse(a[1], t)
        except P.ParseError as e:
            raise ModelError('PUSH literal: %s' % e)
        self.push(t, v)

    def i_DIP(self, a, ins):
        n, code = (intarg(a[0]), a[1]) if len(a) == 2 else (1, a[0])
        ensure(len(self.items) - self.prot >= n, 'DIP too deep')
        self.prot += n
        try:
            self.seq(code)
        finally:
            self.prot -= n

    def i_CAST(self, a, ins):
        pass

    def i_RENAME(self, a, ins):
        pass

    # ---- control -----------------------------------------------------------------------------------------------
    def i_IF(self, a, ins):
        t, v = self.pop()
        ensure(t == T.BOOL, 'IF on non-bool')
        self.seq(a[0] if v else a[1])

    def i_IF_NONE(self, a, ins):
        t, v = self.pop()
        ensure(t[0] == 'option', 'IF_NONE on non-option')
        if v is None:
            self.seq(a[0])
        else:
            self.push(t[1], v[1])
            self.seq(a[1])

    def i_IF_LEFT(self, a, ins):
        t, v = self.pop()
        ensure(t[0] == 'or', 'IF_LEFT on non-or')
        if v[0] == 'L':
            self.push(t[1], v[1])
            self.seq(a[0])
        else:
            self.push(t[2], v[1])
            self.seq(a[1])

    def i_IF_CONS(self, a, ins):
        t, v = self.pop()
        ensure(t[0] == 'list', 'IF_CONS on non-list')
        if v:
            self.push(t, v[1:])
            self.push(t[1], v[0])
            self.seq(a[0])
        else:
            self.seq(a[1])

    def i_LOOP(self, a, ins):
        while True:
            t, v = self.pop()
            ensure(t == T.BOOL, 'LOOP on non-bool')
            if not v:
                break
            self.seq(a[0])

    def i_LOOP_LEFT(self, a, ins):
        while True:
            t, v = self.pop()
            ensure(t[0] == 'or', 'LOOP_LEFT on non-or')
            if v[0] == 'L':
                self.push(t[1], v[1])
                self.seq(a[0])
            else:
                self.push(t[2], v[1])
                break

    def i_ITER(self, a, ins):
        t, v = self.pop()
        ensure(t[0] in ('list', 'set', 'map'), 'ITER on ' + t[0])
        for x in v:
            if t[0] == 'map':
                self.push(T.pair(t[1], t[2]), (x[0], x[1]))
            else:
                self.push(t[1], x)
            self.seq(a[0])

    def i_MAP(self, a, ins):
        t, v = self.pop()
        ensure(t[0] in ('list', 'map'), 'MAP on ' + t[0])
        out, rt = [], None
        for x in v:
            if t[0] == 'map':
                self.push(T.pair(t[1], t[2]), (x[0], x[1]))
            else:
                self.push(t[1], x)
            self.seq(a[0])
            nt, nv = self.pop()
            ensure(rt is None or rt == nt, 'MAP body result type varies')
            rt = nt
            out.append((x[0], nv) if t[0] == 'map' else nv)
        if rt is None:
            rt = self.probe_map_body(a[0], t)
            self.note = 'empty-collection'
        self.push((t[0], t[1], rt) if t[0] == 'map' else ('list', rt), out)

    def probe_map_body(self, body, t):
        """Result type of a MAP body when the collection is empty: the body is run once on a default element in a
        scratch frame (types do not depend on values in well-typed code); nothing is recorded."""
        et = T.pair(t[1], t[2]) if t[0] == 'map' else t[1]
        try:
            dv = default_value(et)
        except KeyError:
            raise Unsupported('MAP over an empty collection of %s' % T.show(et))
        sub = Machine(self.m.env, record=False, max_steps=2000)
        fr = Frame(sub, [(et, dv)] + list(self.items[self.prot:]))
        try:
            fr.seq(body)
        except (Failwith, RuntimeFail, StepLimit, ModelError, Unsupported):
            raise Unsupported('MAP over an empty collection: body result type not derivable by probing')
        return fr.items[0][0]

    def i_LAMBDA(self, a, ins):
        self.push(T.lambda_(ty(a[0]), ty(a[1])), a[2])

    def i_LAMBDA_REC(self, a, ins):
        self.push(T.lambda_(ty(a[0]), ty(a[1])), ('rec', a[2]))

    def i_EXEC(self, a, ins):
        (at, av), (lt, lv) = self.pop(), self.pop()
        ensure(lt[0] == 'lambda' and lt[1] == at, 'EXEC argument type')
        inner = Frame(self.m, [(at, av)])
        if isinstance(lv, tuple) and lv and lv[0] == 'rec':
            inner.items.append((lt, lv))   # arg on top, the lambda itself below
            inner.seq(lv[1])
        else:
            inner.seq(lv)
        ensure(len(inner.items) == 1, 'lambda must leave exactly one value')
        rt, rv = inner.items[0]
        ensure(rt == lt[2], 'lambda result type %r, declared %r' % (rt, lt[2]))
        self.push(rt, rv)

    def i_APPLY(self, a, ins):
        (ct, cv), (lt, lv) = self.pop(), self.pop()
        ensure(lt[0] == 'lambda' and lt[1][0] == 'pair' and lt[1][1] == ct, 'APPLY types')
        ensure(T.pushable(ct) and T.packable(ct), 'APPLY of non-pushable')
        if isinstance(lv, tuple) and lv and lv[0] == 'rec':
            raise Unsupported('APPLY on a recursive lambda')
        code = [{'prim': 'PUSH', 'args': [T.to_micheline(ct), P.render(cv, ct, 'readable')]}, {'prim': 'PAIR'}, lv]
        self.push(T.lambda_(lt[1][2], lt[2]), code)

    def i_FAILWITH(self, a, ins):
        t, v = self.pop()
        raise Failwith(t, v)

    # ---- pairs, unions, options ------------------------------------------------------------------------------------
    def i_PAIR(self, a, ins):
        n = intarg(a[0]) if a else 2
        ensure(n >= 2, 'PAIR n<2')
        xs = [self.pop() for _ in range(n)]
        t, v = xs[-1]
        for xt, xv in reversed(xs[:-1]):
            t, v = ('pair', xt, t), (xv, v)
        self.push(t, v)

    def i_UNPAIR(self, a, ins):
        n = intarg(a[0]) if a else 2
        ensure(n >= 2, 'UNPAIR n<2')
        t, v = self.pop()
        out = []
        for _ in range(n - 1):
            ensure(t[0] == 'pair', 'UNPAIR on non-pair')
            out.append((t[1], v[0]))
            t, v = t[2], v[1]
        out.append((t, v))
        for x in reversed(out):
            self.push(*x)

    def i_CAR(self, a, ins):
        t, v = self.pop()
        ensure(t[0] == 'pair', 'CAR on non-pair')
        self.push(t[1], v[0])

    def i_CDR(self, a, ins):
        t, v = self.pop()
        ensure(t[0] == 'pair', 'CDR on non-pair')
        self.push(t[2], v[1])

    def i_LEFT(self, a, ins):
        t, v = self.pop()
        self.push(T.or_(t, ty(a[0])), ('L', v))

    def i_RIGHT(self, a, ins):
        t, v = self.pop()
        self.push(T.or_(ty(a[0]), t), ('R', v))

    def i_SOME(self, a, ins):
        t, v = self.pop()
        self.push(T.option(t), ('Some', v))

    def i_NONE(self, a, ins):
        self.push(T.option(ty(a[0])), None)

    def i_UNIT(self, a, ins):
        self.push(T.UNIT, ())

    # ---- collections ---------------------------------------------------------------------------------------------
    def i_NIL(self, a, ins):
        self.push(T.list_(ty(a[0])), [])

    def i_CONS(self, a, ins):
        (xt, xv), (lt, lv) = self.pop(), self.pop()
        ensure(lt == ('list', xt), 'CONS types')
        self.push(lt, [xv] + lv)

    def i_EMPTY_SET(self, a, ins):
        self.push(T.set_(ty(a[0])), [])

    def i_EMPTY_MAP(self, a, ins):
        self.push(T.map_(ty(a[0]), ty(a[1])), [])

    def i_EMPTY_BIG_MAP(self, a, ins):
        self.push(T.big_map(ty(a[0]), ty(a[1])), [])

    @staticmethod
    def _find(kt, items, k, keyed):
        for i, x in enumerate(items):
            c = O.compare(kt, x[0] if keyed else x, k)
            if c == 0:
                return i, True
            if c > 0:
                return i, False
        return len(items), False

    def i_MEM(self, a, ins):
        (kt, k), (ct, c) = self.pop(), self.pop()
        ensure(ct[0] in ('set', 'map', 'big_map') and ct[1] == kt, 'MEM types')
        _, found = self._find(kt, c, k, ct[0] != 'set')
        self.push(T.BOOL, found)

    def i_GET(self, a, ins):
        if a:
            n = intarg(a[0])
            t, v = self.pop()
            for _ in range(n // 2):
                ensure(t[0] == 'pair', 'GET n on non-pair')
                t, v = t[2], v[1]
            if n % 2:
                ensure(t[0] == 'pair', 'GET n on non-pair')
                t, v = t[1], v[0]
            self.push(t, v)
            return
        (kt, k), (ct, c) = self.pop(), self.pop()
        ensure(ct[0] in ('map', 'big_map') and ct[1] == kt, 'GET types')
        i, found = self._find(kt, c, k, True)
        self.push(T.option(ct[2]), ('Some', c[i][1]) if found else None)

    def i_UPDATE(self, a, ins):
        if a:
            n = intarg(a[0])
            (nt, nv), (t, v) = self.pop(), self.pop()

            def upd(t, v, n):
                if n == 0:
                    return nt, nv
                ensure(t[0] == 'pair', 'UPDATE n on non-pair')
                if n == 1:
                    return ('pair', nt, t[2]), (nv, v[1])
                rt, rv = upd(t[2], v[1], n - 2)
                return ('pair', t[1], rt), (v[0], rv)
            self.push(*upd(t, v, n))
            return
        (kt, k), (vt, x), (ct, c) = self.pop(), self.pop(), self.pop()
        ensure(ct[0] in ('set', 'map', 'big_map') and ct[1] == kt, 'UPDATE types')
        self.push(ct, self._update(ct, c, k, vt, x))

    def _update(self, ct, c, k, vt, x):
        keyed = ct[0] != 'set'
        i, found = self._find(ct[1], c, k, keyed)
        if not keyed:
            ensure(vt == T.BOOL, 'set UPDATE flag')
            if x and not found:
                return c[:i] + [k] + c[i:]
            if not x and found:
                return c[:i] + c[i + 1:]
            return list(c)
        ensure(vt == T.option(ct[2]), 'map UPDATE value type')
        if x is None:
            return c[:i] + c[i + 1:] if found else list(c)
        return c[:i] + [(k, x[1])] + c[i + (1 if found else 0):]

    def i_GET_AND_UPDATE(self, a, ins):
        (kt, k), (vt, x), (ct, c) = self.pop(), self.pop(), self.pop()
        ensure(ct[0] in ('map', 'big_map') and ct[1] == kt, 'GET_AND_UPDATE types')
        i, found = self._find(kt, c, k, True)
        old = ('Some', c[i][1]) if found else None
        self.push(ct, self._update(ct, c, k, vt, x))
        self.push(T.option(ct[2]), old)

    def i_SIZE(self, a, ins):
        t, v = self.pop()
        ensure(t[0] in ('string', 'bytes', 'list', 'set', 'map'), 'SIZE on ' + t[0])
        self.push(T.NAT, len(v))

    # ---- strings / bytes -------------------------------------------------------------------------------------------
    def i_CONCAT(self, a, ins):
        t, v = self.pop()
        if t[0] == 'list':
            ensure(t[1][0] in ('string', 'bytes'), 'CONCAT list element')
            self.push(t[1], ('' if t[1][0] == 'string' else b'').join(v))
        else:
            t2, v2 = self.pop()
            ensure(t == t2 and t[0] in ('string', 'bytes'), 'CONCAT types')
            self.push(t, v + v2)

    def i_SLICE(self, a, ins):
        (ot, o), (lt, l), (st, s) = self.pop(), self.pop(), self.pop()
        ensure(ot == T.NAT and lt == T.NAT and st[0] in ('string', 'bytes'), 'SLICE types')
        if o < len(s) and o + l <= len(s):
            self.push(T.option(st), ('Some', s[o:o + l]))
        else:
            self.push(T.option(st), None)

    # ---- arithmetic -------------------------------------------------------------------------------------------------
    def _mutez(self, v):
        if v < 0:
            raise RuntimeFail('mutez underflow')
        if v > MAX_MUTEZ:
            raise RuntimeFail('mutez overflow')
        return v

    def i_ADD(self, a, ins):
        (t1, x), (t2, y) = self.pop(), self.pop()
        k = (t1[0], t2[0])
        if k == ('nat', 'nat'):
            self.push(T.NAT, x + y)
        elif k in (('nat', 'int'), ('int', 'nat'), ('int', 'int')):
            self.push(T.INT, x + y)
        elif k in (('timestamp', 'int'), ('int', 'timestamp')):
            self.push(T.TIMESTAMP, x + y)
        elif k == ('mutez', 'mutez'):
            self.push(T.MUTEZ, self._mutez(x + y))
        elif k == ('bls12_381_fr', 'bls12_381_fr'):
            self.push(T.FR, (x + y) % O.BLS_R)
        elif k in (('bls12_381_g1', 'bls12_381_g1'), ('bls12_381_g2', 'bls12_381_g2')):
            from . import bls
            self.push(t1, bls.add(t1[0], x, y))
        else:
            raise ModelError('ADD %r' % (k,))

    def i_SUB(self, a, ins):
        (t1, x), (t2, y) = self.pop(), self.pop()
        k = (t1[0], t2[0])
        if k in (('nat', 'nat'), ('nat', 'int'), ('int', 'nat'), ('int', 'int'), ('timestamp', 'timestamp')):
            self.push(T.INT, x - y)
        elif k == ('timestamp', 'int'):
            self.push(T.TIMESTAMP, x - y)
        elif k == ('mutez', 'mutez'):
            self.push(T.MUTEZ, self._mutez(x - y))
        else:
            raise ModelError('SUB %r' % (k,))

    def i_SUB_MUTEZ(self, a, ins):
        (t1, x), (t2, y) = self.pop(), self.pop()
        ensure(t1 == T.MUTEZ and t2 == T.MUTEZ, 'SUB_MUTEZ types')
        self.push(T.option(T.MUTEZ), ('Some', x - y) if x >= y else None)

    def i_MUL(self, a, ins):
        (t1, x), (t2, y) = self.pop(), self.pop()
        k = (t1[0], t2[0])
        if k == ('nat', 'nat'):
            self.push(T.NAT, x * y)
        elif k in (('nat', 'int'), ('int', 'nat'), ('int', 'int')):
            self.push(T.INT, x * y)
        elif k in (('mutez', 'nat'), ('nat', 'mutez')):
            self.push(T.MUTEZ, self._mutez(x * y))
        elif k == ('bls12_381_fr', 'bls12_381_fr') or k in (('nat', 'bls12_381_fr'), ('int', 'bls12_381_fr'), ('bls12_381_fr', 'nat'), ('bls12_381_fr', 'int')):
            self.push(T.FR, (x * y) % O.BLS_R)
        elif k in (('bls12_381_g1', 'bls12_381_fr'), ('bls12_381_g2', 'bls12_381_fr')):
            from . import bls
            self.push(t1, bls.mul(t1[0], x, y))
        else:
            raise ModelError('MUL %r' % (k,))

    def i_EDIV(self, a, ins):
        (t1, x), (t2, y) = self.pop(), self.pop()
        k = (t1[0], t2[0])
        if k == ('nat', 'nat'):
            rt = T.pair(T.NAT, T.NAT)
        elif k in (('nat', 'int'), ('int', 'nat'), ('int', 'int')):
            rt = T.pair(T.INT, T.NAT)
        elif k == ('mutez', 'nat'):
            rt = T.pair(T.MUTEZ, T.MUTEZ)
        elif k == ('mutez', 'mutez'):
            rt = T.pair(T.NAT, T.MUTEZ)
        else:
            raise ModelError('EDIV %r' % (k,))
        if y == 0:
            self.push(T.option(rt), None)
            return
        q, r = divmod(x, y)          # floor division; make the remainder non-negative (Euclidean)
        if r < 0:
            q, r = q + 1, r - y
        self.push(T.option(rt), ('Some', (q, r)))

    def i_ABS(self, a, ins):
        t, v = self.pop()
        ensure(t == T.INT, 'ABS type')
        self.push(T.NAT, abs(v))

    def i_NEG(self, a, ins):
        t, v = self.pop()
        if t[0] in ('nat', 'int'):
            self.push(T.INT, -v)
        elif t[0] == 'bls12_381_fr':
            self.push(t, (-v) % O.BLS_R)
        elif t[0] in ('bls12_381_g1', 'bls12_381_g2'):
            from . import bls
            self.push(t, bls.neg(t[0], v))
        else:
            raise ModelError('NEG ' + t[0])

    def i_ISNAT(self, a, ins):
        t, v = self.pop()
        ensure(t == T.INT, 'ISNAT type')
        self.push(T.option(T.NAT), ('Some', v) if v >= 0 else None)

    def i_INT(self, a, ins):
        t, v = self.pop()
        if t[0] in ('nat', 'bls12_381_fr'):
            self.push(T.INT, v)
        elif t[0] == 'bytes':
            self.push(T.INT, int.from_bytes(v, 'big', signed=True) if v else 0)
        else:
            raise ModelError('INT ' + t[0])

    def i_NAT(self, a, ins):
        t, v = self.pop()
        ensure(t == T.BYTES, 'NAT type')
        self.push(T.NAT, int.from_bytes(v, 'big'))

    def i_BYTES(self, a, ins):
        t, v = self.pop()
        if t[0] == 'nat':
            self.push(T.BYTES, v.to_bytes((v.bit_length() + 7) // 8, 'big'))
        elif t[0] == 'int':
            if v == 0:
                b = b''
            else:
                n = 1
                while True:
                    try:
                        b = v.to_bytes(n, 'big', signed=True)
                        break
                    except OverflowError:
                        n += 1
            self.push(T.BYTES, b)
        else:
            raise ModelError('BYTES ' + t[0])

    def i_LSL(self, a, ins):
        (t1, x), (t2, n) = self.pop(), self.pop()
        ensure(t2 == T.NAT, 'LSL shift type')
        if t1 == T.NAT:
            if n > 256:
                raise RuntimeFail('shift overflow')
            self.push(T.NAT, x << n)
        elif t1 == T.BYTES:
            if n > 64000:
                raise RuntimeFail('shift overflow')
            v = int.from_bytes(x, 'big') << n
            self.push(T.BYTES, v.to_bytes(len(x) + (n + 7) // 8, 'big'))
        else:
            raise ModelError('LSL ' + t1[0])

    def i_LSR(self, a, ins):
        (t1, x), (t2, n) = self.pop(), self.pop()
        ensure(t2 == T.NAT, 'LSR shift type')
        if t1 == T.NAT:
            if n > 256:
                raise RuntimeFail('shift overflow')
            self.push(T.NAT, x >> n)
        elif t1 == T.BYTES:
            keep = max(0, len(x) - n // 8)
            v = int.from_bytes(x, 'big') >> n
            self.push(T.BYTES, v.to_bytes(keep, 'big') if keep else b'')
        else:
            raise ModelError('LSR ' + t1[0])

    def i_AND(self, a, ins):
        (t1, x), (t2, y) = self.pop(), self.pop()
        k = (t1[0], t2[0])
        if k == ('bool', 'bool'):
            self.push(T.BOOL, x and y)
        elif k in (('nat', 'nat'), ('int', 'nat')):
            self.push(T.NAT, x & y)
        elif k == ('bytes', 'bytes'):
            n = min(len(x), len(y))
            self.push(T.BYTES, bytes(p & q for p, q in zip(x[len(x) - n:], y[len(y) - n:])))
        else:
            raise ModelError('AND %r' % (k,))

    def _orxor(self, op):
        (t1, x), (t2, y) = self.pop(), self.pop()
        k = (t1[0], t2[0])
        if k == ('bool', 'bool'):
            self.push(T.BOOL, bool(op(x, y)))
        elif k == ('nat', 'nat'):
            self.push(T.NAT, op(x, y))
        elif k == ('bytes', 'bytes'):
            n = max(len(x), len(y))
            x, y = x.rjust(n, b'\0'), y.rjust(n, b'\0')
            self.push(T.BYTES, bytes(op(p, q) for p, q in zip(x, y)))
        else:
            raise ModelError('OR/XOR %r' % (k,))

    def i_OR(self, a, ins):
        self._orxor(lambda p, q: p | q)

    def i_XOR(self, a, ins):
        self._orxor(lambda p, q: p ^ q)

    def i_NOT(self, a, ins):
        t, v = self.pop()
        if t == T.BOOL:
            self.push(T.BOOL, not v)
        elif t[0] in ('nat', 'int'):
            self.push(T.INT, -v - 1)
        elif t == T.BYTES:
            self.push(T.BYTES, bytes(b ^ 0xFF for b in v))
        else:
            raise ModelError('NOT ' + t[0])

    # ---- comparison -------------------------------------------------------------------------------------------------
    def i_COMPARE(self, a, ins):
        (t1, x), (t2, y) = self.pop(), self.pop()
        ensure(t1 == t2 and T.comparable(t1), 'COMPARE types')
        if O.weak(t1, x, y):
            raise Unsupported('COMPARE on a weak sub-case')
        self.push(T.INT, O.compare(t1, x, y))

    def _cmp0(self, f):
        t, v = self.pop()
        ensure(t == T.INT, 'comparison on non-int')
        self.push(T.BOOL, f(v))

    def i_EQ(self, a, ins):
        self._cmp0(lambda v: v == 0)

    def i_NEQ(self, a, ins):
        self._cmp0(lambda v: v != 0)

    def i_LT(self, a, ins):
        self._cmp0(lambda v: v < 0)

    def i_GT(self, a, ins):
        self._cmp0(lambda v: v > 0)

    def i_LE(self, a, ins):
        self._cmp0(lambda v: v <= 0)

    def i_GE(self, a, ins):
        self._cmp0(lambda v: v >= 0)

    # ---- hashing, packing -----------------------------------------------------------------------------------------------
    def _hash(self, f):
        t, v = self.pop()
        ensure(t == T.BYTES, 'hash on non-bytes')
        self.push(T.BYTES, f(v))

    def i_BLAKE2B(self, a, ins):
        self._hash(lambda b: hashlib.blake2b(b, digest_size=32).digest())

    def i_SHA256(self, a, ins):
        self._hash(lambda b: hashlib.sha256(b).digest())

    def i_SHA512(self, a, ins):
        self._hash(lambda b: hashlib.sha512(b).digest())

    def i_SHA3(self, a, ins):
        self._hash(lambda b: hashlib.sha3_256(b).digest())

    def i_KECCAK(self, a, ins):
        self._hash(keccak.keccak256)

    def i_PACK(self, a, ins):
        t, v = self.pop()
        ensure(T.packable(t), 'PACK of non-packable')
        if T.contains(t, 'lambda'):
            raise Unsupported('PACK of lambdas (code spelling)')
        self.push(T.BYTES, P.pack(v, t))

    def i_UNPACK(self, a, ins):
        t, v = self.pop()
        ensure(t == T.BYTES, 'UNPACK on non-bytes')
        rt = ty(a[0])
        st, val = P.unpack(v, rt)
        if st == 'dontcare':
            raise Unsupported('UNPACK undecided: %s' % val)
        self.push(T.option(rt), ('Some', val) if st == 'some' else None)

    # ---- environment -------------------------------------------------------------------------------------------------
    def i_AMOUNT(self, a, ins):
        self.push(T.MUTEZ, self.m.env['amount'])

    def i_BALANCE(self, a, ins):
        self.push(T.MUTEZ, self.m.env['balance'])

    def i_NOW(self, a, ins):
        self.push(T.TIMESTAMP, self.m.env['now'])

    def i_LEVEL(self, a, ins):
        self.push(T.NAT, self.m.env['level'])

    def i_MIN_BLOCK_TIME(self, a, ins):
        self.push(T.NAT, self.m.env['min_block_time'])

    def i_TOTAL_VOTING_POWER(self, a, ins):
        self.push(T.NAT, self.m.env['total_voting_power'])

    def i_VOTING_POWER(self, a, ins):
        t, v = self.pop()
        ensure(t == T.KEY_HASH, 'VOTING_POWER type')
        self.push(T.NAT, self.m.env['voting_power'].get(v, 0))

    def i_SENDER(self, a, ins):
        self.push(T.ADDRESS, self.m.env['sender'])

    def i_SOURCE(self, a, ins):
        self.push(T.ADDRESS, self.m.env['source'])

    def i_SELF_ADDRESS(self, a, ins):
        self.push(T.ADDRESS, self.m.env['self_address'])

    def i_CHAIN_ID(self, a, ins):
        self.push(T.CHAIN_ID, self.m.env['chain_id'])

    def i_ADDRESS(self, a, ins):
        t, v = self.pop()
        ensure(t[0] == 'contract', 'ADDRESS type')
        self.push(T.ADDRESS, v)

    def i_IMPLICIT_ACCOUNT(self, a, ins):
        t, v = self.pop()
        ensure(t == T.KEY_HASH, 'IMPLICIT_ACCOUNT type')
        self.push(T.contract(T.UNIT), (b'\x00' + v, ''))

    # ---- crypto -----------------------------------------------------------------------------------------------------------
    def i_HASH_KEY(self, a, ins):
        t, v = self.pop()
        ensure(t == T.KEY, 'HASH_KEY type')
        self.push(T.KEY_HASH, bytes([v[0]]) + hashlib.blake2b(v[1:], digest_size=20).digest())

    def i_CHECK_SIGNATURE(self, a, ins):
        from . import ecc
        (kt, k), (st, s), (bt, b) = self.pop(), self.pop(), self.pop()
        ensure(kt == T.KEY and st == T.SIGNATURE and bt == T.BYTES, 'CHECK_SIGNATURE types')
        curve = [b'ed', b'sp', b'p2', b'BL'][k[0]]
        self.push(T.BOOL, bool(ecc.verify(curve, k[1:], s, b)))

    # ---- tickets -----------------------------------------------------------------------------------------------------------
    def i_TICKET(self, a, ins):
        (ct, c), (nt, n) = self.pop(), self.pop()
        ensure(nt == T.NAT and T.comparable(ct), 'TICKET types')
        tt = T.ticket(ct)
        self.push(T.option(tt), ('Some', (self.m.env['self_address'], c, n)) if n > 0 else None)

    def i_READ_TICKET(self, a, ins):
        t, v = self.peek()
        ensure(t[0] == 'ticket', 'READ_TICKET type')
        self.push(T.pair(T.ADDRESS, t[1], T.NAT), (v[0], (v[1], v[2])))

    def i_SPLIT_TICKET(self, a, ins):
        (t, v), (pt, p) = self.pop(), self.pop()
        ensure(t[0] == 'ticket' and pt == T.pair(T.NAT, T.NAT), 'SPLIT_TICKET types')
        x, y = p
        rt = T.option(T.pair(t, t))
        if x + y == v[2] and x > 0 and y > 0:
            self.push(rt, ('Some', ((v[0], v[1], x), (v[0], v[1], y))))
        else:
            self.push(rt, None)

    def i_JOIN_TICKETS(self, a, ins):
        t, v = self.pop()
        ensure(t[0] == 'pair' and t[1][0] == 'ticket' and t[1] == t[2], 'JOIN_TICKETS types')
        x, y = v
        if x[0] == y[0] and O.compare(t[1][1], x[1], y[1]) == 0:
            self.push(T.option(t[1]), ('Some', (x[0], x[1], x[2] + y[2])))
        else:
            self.push(T.option(t[1]), None)

    def i_PAIRING_CHECK(self, a, ins):
        from . import bls
        t, v = self.pop()
        ensure(t == T.list_(T.pair(T.G1, T.G2)), 'PAIRING_CHECK type')
        self.push(T.BOOL, bls.pairing_check(v))


# instruction -> number of operands popped; results come from the implementation's trace (see Frame.adopt)
ADOPTED = {'CONTRACT': 1, 'TRANSFER_TOKENS': 3, 'SELF': 0, 'SET_DELEGATE': 1, 'CREATE_CONTRACT': 3, 'VIEW': 2, 'EMIT': 1}


def default_value(t):
    p = t[0]
    if p == 'unit':
        return ()
    if p == 'bool':
        return False
    if p in ('int', 'nat', 'mutez', 'timestamp', 'bls12_381_fr'):
        return 0
    if p == 'string':
        return ''
    if p == 'bytes':
        return b''
    if p == 'chain_id':
        return bytes(4)
    if p == 'key_hash':
        return bytes(21)
    if p == 'key':
        return bytes(33)
    if p == 'signature':
        return bytes(64)
    if p == 'address':
        return (bytes(22), '')
    if p == 'pair':
        return (default_value(t[1]), default_value(t[2]))
    if p == 'option':
        return None
    if p == 'or':
        return ('L', default_value(t[1]))
    if p in ('list', 'set', 'map', 'big_map'):
        return []
    if p == 'lambda':
        return [{'prim': 'FAILWITH'}]
    raise KeyError(p)


def run(code, stack, env=None, record=True, max_steps=20000, oracle=None):
    return Machine(env, record=record, max_steps=max_steps, oracle=oracle).run(code, stack)
