"""Model types: plain tuples (prim, *args), annotations never stored. pair is always binary (right comb).
Stdlib only."""

SIMPLE = ['unit', 'never', 'bool', 'int', 'nat', 'string', 'chain_id', 'bytes', 'mutez', 'key_hash', 'key', 'signature',
          'timestamp', 'address', 'operation', 'bls12_381_g1', 'bls12_381_g2', 'bls12_381_fr', 'tx_rollup_l2_address',
          'chest', 'chest_key']
UNIT, NEVER, BOOL, INT, NAT, STRING, CHAIN_ID, BYTES, MUTEZ, KEY_HASH, KEY, SIGNATURE, TIMESTAMP, ADDRESS, OPERATION, \
    G1, G2, FR = [(p,) for p in SIMPLE[:18]]


def pair(*ts):
    assert len(ts) >= 2
    if len(ts) == 2:
        return ('pair', ts[0], ts[1])
    return ('pair', ts[0], pair(*ts[1:]))


def option(t):
    return ('option', t)


def or_(a, b):
    return ('or', a, b)


def list_(t):
    return ('list', t)


def set_(t):
    return ('set', t)


def map_(k, v):
    return ('map', k, v)


def big_map(k, v):
    return ('big_map', k, v)


def lambda_(a, b):
    return ('lambda', a, b)


def contract(t):
    return ('contract', t)


def ticket(t):
    return ('ticket', t)


NOT_COMPARABLE = {'bls12_381_fr', 'bls12_381_g1', 'bls12_381_g2', 'sapling_state', 'sapling_transaction', 'big_map',
                  'contract', 'lambda', 'list', 'map', 'set', 'operation', 'ticket', 'chest', 'chest_key'}


def comparable(t):
    return t[0] not in NOT_COMPARABLE and all(comparable(a) for a in t[1:])


def _flag(t, bad, lam=True):
    if t[0] in bad:
        return False
    if t[0] == 'lambda':
        return lam
    return all(_flag(a, bad, lam) for a in t[1:])


def packable(t):
    return _flag(t, {'big_map', 'operation', 'sapling_state', 'ticket'})


def pushable(t):
    return _flag(t, {'big_map', 'operation', 'sapling_state', 'ticket', 'contract'})


def storable(t):
    return _flag(t, {'contract', 'operation'})


def passable(t):
    return _flag(t, {'operation'})


def duplicable(t):
    return _flag(t, {'ticket'})


def contains(t, prim):
    return t[0] == prim or any(contains(a, prim) for a in t[1:] if isinstance(a, tuple))


def comb_types(t):
    """Leaves of the right comb of a pair type."""
    out = []
    while t[0] == 'pair':
        out.append(t[1])
        t = t[2]
    out.append(t)
    return out


def to_micheline(t, annot=None):
    """annot: optional function(path_tuple, type) -> list of annots for that node. n-ary pairs are NOT used: always
    binary nesting, so that inner right-hand pairs can carry their own annotations."""
    def go(t, path):
        e = {'prim': t[0]}
        if len(t) > 1:
            e['args'] = [go(a, path + (i,)) for i, a in enumerate(t[1:])]
        if annot is not None:
            an = annot(path, t)
            if an:
                e['annots'] = an
        return e
    return go(t, ())


def from_micheline(e):
    prim = e['prim']
    args = e.get('args', [])
    if prim == 'pair':
        return pair(*[from_micheline(a) for a in args])
    return (prim,) + tuple(from_micheline(a) for a in args)


def show(t):
    if len(t) == 1:
        return t[0]
    return '(%s %s)' % (t[0], ' '.join(show(a) for a in t[1:]))


def depth(t):
    return 1 + max([depth(a) for a in t[1:]] or [0])
