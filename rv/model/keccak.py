"""Keccak-256 (original Keccak padding 0x01, as used by the KECCAK instruction), stdlib only."""
RC = [0x0000000000000001, 0x0000000000008082, 0x800000000000808A, 0x8000000080008000, 0x000000000000808B, 0x0000000080000001,
      0x8000000080008081, 0x8000000000008009, 0x000000000000008A, 0x0000000000000088, 0x0000000080008009, 0x000000008000000A,
      0x000000008000808B, 0x800000000000008B, 0x8000000000008089, 0x8000000000008003, 0x8000000000008002, 0x8000000000000080,
      0x000000000000800A, 0x800000008000000A, 0x8000000080008081, 0x8000000000008080, 0x0000000080000001, 0x8000000080008008]
ROT = [[0, 36, 3, 41, 18], [1, 44, 10, 45, 2], [62, 6, 43, 15, 61], [28, 55, 25, 21, 56], [27, 20, 39, 8, 14]]
M = (1 << 64) - 1


def _rol(x, n):
    n %= 64
    return ((x << n) | (x >> (64 - n))) & M if n else x


def _f(A):
    for rc in RC:
        C = [A[x][0] ^ A[x][1] ^ A[x][2] ^ A[x][3] ^ A[x][4] for x in range(5)]
        D = [C[(x - 1) % 5] ^ _rol(C[(x + 1) % 5], 1) for x in range(5)]
        A = [[A[x][y] ^ D[x] for y in range(5)] for x in range(5)]
        B = [[0] * 5 for _ in range(5)]
        for x in range(5):
            for y in range(5):
                B[y][(2 * x + 3 * y) % 5] = _rol(A[x][y], ROT[x][y])
        A = [[B[x][y] ^ ((~B[(x + 1) % 5][y]) & B[(x + 2) % 5][y]) for y in range(5)] for x in range(5)]
        A[0][0] ^= rc
    return A


def keccak256(data, pad=0x01):
    rate = 136
    msg = bytearray(data)
    msg.append(pad)
    while len(msg) % rate:
        msg.append(0)
    msg[-1] |= 0x80
    A = [[0] * 5 for _ in range(5)]
    for off in range(0, len(msg), rate):
        block = msg[off:off + rate]
        for i in range(rate // 8):
            x, y = i % 5, i // 5
            A[x][y] ^= int.from_bytes(block[8 * i:8 * i + 8], 'little')
        A = _f(A)
    out = b''
    for i in range(4):
        out += A[i % 5][i // 5].to_bytes(8, 'little')
    return out
