"""Independent crypto references: OpenSSL (via `cryptography`) for Ed25519 / secp256k1 / P-256, hashlib for Blake2b,
py_ecc's *low-level* curve API for BLS12-381 min-pk with message augmentation (pytezos calls the high-level
G2MessageAugmentation object of the same library: the reference is independent of pytezos' glue, not of py_ecc)."""
import hashlib

from cryptography.exceptions import InvalidSignature
from cryptography.hazmat.primitives import hashes, serialization
from cryptography.hazmat.primitives.asymmetric import ec, ed25519, utils

N_SECP256K1 = 0xFFFFFFFFFFFFFFFFFFFFFFFFFFFFFFFEBAAEDCE6AF48A03BBFD25E8CD0364141
N_P256 = 0xFFFFFFFF00000000FFFFFFFFFFFFFFFFBCE6FAADA7179E84F3B9CAC2FC632551
BLS_R = 0x73eda753299d7d483339d80809a1d80553bda402fffe5bfeffffffff00000001
CURVES = {b'sp': (ec.SECP256K1, N_SECP256K1), b'p2': (ec.SECP256R1, N_P256)}


def blake2b_256(b):
    return hashlib.blake2b(b, digest_size=32).digest()


def blake2b_160(b):
    return hashlib.blake2b(b, digest_size=20).digest()


def public_point(curve, secret):
    """secret: 32-byte seed (ed), 32-byte big-endian scalar (sp, p2), 32-byte little-endian scalar (BL)."""
    if curve == b'ed':
        sk = ed25519.Ed25519PrivateKey.from_private_bytes(secret[:32])
        return sk.public_key().public_bytes(serialization.Encoding.Raw, serialization.PublicFormat.Raw)
    if curve in CURVES:
        c, _n = CURVES[curve]
        sk = ec.derive_private_key(int.from_bytes(secret, 'big'), c())
        return sk.public_key().public_bytes(serialization.Encoding.X962, serialization.PublicFormat.CompressedPoint)
    if curve == b'BL':
        from py_ecc.bls.g2_primitives import G1_to_pubkey
        from py_ecc.optimized_bls12_381 import G1, multiply
        return bytes(G1_to_pubkey(multiply(G1, int.from_bytes(secret, 'little') % BLS_R)))
    raise ValueError(curve)


def verify(curve, pub, sig, msg):
    """Independent verification. Ed/secp/p256 over Blake2b-256(msg); BLS over the message itself (AUG scheme)."""
    try:
        if curve == b'ed':
            if len(sig) != 64:
                return False
            ed25519.Ed25519PublicKey.from_public_bytes(pub).verify(sig, blake2b_256(msg))
            return True
        if curve in CURVES:
            c, n = CURVES[curve]
            if len(sig) != 64:
                return False
            r, s = int.from_bytes(sig[:32], 'big'), int.from_bytes(sig[32:], 'big')
            if not (0 < r < n and 0 < s < n):
                return False
            if curve == b'sp' and s > n // 2:
                return False      # libsecp256k1 (what Tezos verifies tz2 signatures with) only accepts the lower-S form
            pk = ec.EllipticCurvePublicKey.from_encoded_point(c(), pub)
            pk.verify(utils.encode_dss_signature(r, s), blake2b_256(msg), ec.ECDSA(utils.Prehashed(hashes.SHA256())))
            return True
        if curve == b'BL':
            return bls_verify(pub, sig, msg)
    except (InvalidSignature, ValueError):
        return False
    raise ValueError(curve)


def valid_point(curve, pub):
    """True / False where the reference can tell whether the bytes are a public key of the curve; None where it cannot (Ed25519:
    the library validates lazily)."""
    try:
        if curve in CURVES:
            ec.EllipticCurvePublicKey.from_encoded_point(CURVES[curve][0](), pub)
            return True
        if curve == b'BL':
            from py_ecc.bls.g2_primitives import pubkey_to_G1, subgroup_check
            from py_ecc.optimized_bls12_381 import is_inf
            P = pubkey_to_G1(pub)
            return bool(not is_inf(P) and subgroup_check(P))
    except Exception:
        return False
    return None


DST_AUG = b'BLS_SIG_BLS12381G2_XMD:SHA-256_SSWU_RO_AUG_'


def bls_verify(pub, sig, msg):
    from py_ecc.bls.g2_primitives import pubkey_to_G1, signature_to_G2
    from py_ecc.bls.hash_to_curve import hash_to_G2
    from py_ecc.optimized_bls12_381 import FQ12, G1, Z1, final_exponentiate, neg, pairing
    if len(sig) != 96 or len(pub) != 48:
        return False
    try:
        P = pubkey_to_G1(pub)
        S = signature_to_G2(sig)
    except Exception:
        return False
    from py_ecc.bls.g2_primitives import subgroup_check
    from py_ecc.optimized_bls12_381 import is_inf
    if is_inf(P) or not subgroup_check(P) or not subgroup_check(S):
        return False
    H = hash_to_G2(pub + msg, DST_AUG, hashlib.sha256)
    prod = pairing(S, neg(G1), final_exponentiate=False) * pairing(H, P, final_exponentiate=False)
    return final_exponentiate(prod) == FQ12.one()


PKH_PREFIX = {b'ed': 'tz1', b'sp': 'tz2', b'p2': 'tz3', b'BL': 'tz4'}
