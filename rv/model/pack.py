"""Typed data <-> Micheline for the three modes, PACK bytes, script-expression hash (stdlib only).

Model values (type-directed, plain Python):
  unit ()                       bool True/False            int nat mutez timestamp bls12_381_fr  int
  string str                    bytes chain_id(4) key_hash(21: tag+hash) key(tag+raw) signature(64/96) g1 g2  bytes
  address/contract (addr22 bytes, entrypoint str; '' = default)
  pair (a, b)                   option None | ('Some', v)   or ('L', v) | ('R', v)
  list [..]                     set [..] strictly increasing   map [(k, v)..] strictly increasing keys
  big_map like map (a list of pairs; ids are handled by the checks that need them)
  lambda Micheline code (list)  or ('rec', code) for Lambda_rec
  ticket (ticketer_address_value, contents, amount)
"""
import datetime
import hashlib
import re

from . import base58 as B
from . import micheline_bin as MB
from . import order as O

KH_PREFIX = ['tz1', 'tz2', 'tz3', 'tz4']
KEY_PREFIX = ['edpk', 'sppk', 'p2pk', 'BLpk']
KEY_LEN = [32, 33, 33, 48]
MAX_MUTEZ = 2 ** 63 - 1


class ParseError(Exception):
    pass


class Uncertain(Exception):
    """The reference verdict is not certain from documentation: no demand is made."""


# ---- base58 spellings of domain values -------------------------------------------------------------------------
def kh_to_b58(v):
    return B.encode(v[1:], KH_PREFIX[v[0]])


def kh_from_b58(s):
    for tag, p in enumerate(KH_PREFIX):
        if s.startswith(p):
            return bytes([tag]) + B.decode(s, p)
    raise ParseError('key_hash ' + s)


def key_to_b58(v):
    return B.encode(v[1:], KEY_PREFIX[v[0]])


def key_from_b58(s):
    for tag, p in enumerate(KEY_PREFIX):
        if s.startswith(p):
            return bytes([tag]) + B.decode(s, p)
    raise ParseError('key ' + s)


def sig_to_b58(v):
    return B.encode(v, 'BLsig' if len(v) == 96 else 'sig')


def sig_from_b58(s):
    for p in ('edsig', 'spsig', 'p2sig', 'BLsig', 'sig'):
        if s.startswith(p):
            return B.decode(s, p)
    raise ParseError('signature ' + s)


ADDR_PREFIX = {0: None, 1: 'KT1', 2: 'txr1', 3: 'sr1'}


def addr22_to_b58(a):
    if a[0] == 0:
        return B.encode(a[2:], KH_PREFIX[a[1]])
    return B.encode(a[1:21], ADDR_PREFIX[a[0]])


def addr22_from_b58(s):
    for tag, p in enumerate(KH_PREFIX):
        if s.startswith(p):
            return bytes([0, tag]) + B.decode(s, p)
    for tag, p in ((1, 'KT1'), (2, 'txr1'), (3, 'sr1')):
        if s.startswith(p):
            return bytes([tag]) + B.decode(s, p) + b'\x00'
    raise ParseError('address ' + s)


def address_to_str(v):
    a, ep = v
    return addr22_to_b58(a) + ('%' + ep if ep else '')


def address_from_str(s):
    base, _, ep = s.partition('%')
    if ep == 'default':
        ep = ''
    return (addr22_from_b58(base), ep)


def address_from_bytes(b):
    if len(b) < 22:
        raise ParseError('address bytes too short')
    a, ep = b[:22], b[22:]
    if a[0] == 0:
        if a[1] > 3:
            raise ParseError('bad implicit tag')
    elif a[0] in (2, 4):
        # tx rollup (removed from the protocol) / zk rollup destinations: acceptance is not certain
        raise Uncertain('rollup address kind %d' % a[0])
    elif a[0] in (1, 3):
        if a[21] != 0:
            raise ParseError('bad padding')
    else:
        raise ParseError('bad address tag')
    try:
        eps = ep.decode('ascii')
    except UnicodeDecodeError:
        raise ParseError('entrypoint not ascii')
    if eps == 'default':
        eps = ''
    if eps and not re.fullmatch(r'[_0-9a-zA-Z][_0-9a-zA-Z.%@]*', eps):
        # a name no Michelson annotation can spell (it can only come from altered bytes): what reading it gives is not fixed
        raise Uncertain('entrypoint name outside the annotation alphabet')
    return (a, eps)


# ---- timestamps ------------------------------------------------------------------------------------------------
EPOCH = datetime.datetime(1970, 1, 1, tzinfo=datetime.timezone.utc)
TS_MIN = int((datetime.datetime(1000, 1, 1, tzinfo=datetime.timezone.utc) - EPOCH).total_seconds())
TS_MAX = int((datetime.datetime(9999, 12, 31, 23, 59, 59, tzinfo=datetime.timezone.utc) - EPOCH).total_seconds())


def ts_in_rfc_range(v):
    return TS_MIN <= v <= TS_MAX


def ts_to_rfc3339(v):
    return (EPOCH + datetime.timedelta(seconds=v)).strftime('%Y-%m-%dT%H:%M:%SZ')


def ts_from_string(s):
    try:
        if s.lstrip('-').isdigit():
            return int(s)
        d = datetime.datetime.strptime(s, '%Y-%m-%dT%H:%M:%SZ').replace(tzinfo=datetime.timezone.utc)
        return int((d - EPOCH).total_seconds())
    except Exception:
        raise ParseError('timestamp ' + s)


# ---- rendering -------------------------------------------------------------------------------------------------
def comb_values(v, t):
    """Flatten the right comb of value v of pair type t -> [(value, type)]."""
    out = []
    while t[0] == 'pair':
        out.append((v[0], t[1]))
        v, t = v[1], t[2]
    out.append((v, t))
    return out


def render(v, t, mode='optimized'):
    """mode in readable | optimized | legacy_optimized"""
    p = t[0]
    opt = mode != 'readable'
    if p == 'unit':
        return {'prim': 'Unit'}
    if p == 'bool':
        return {'prim': 'True' if v else 'False'}
    if p in ('int', 'nat', 'mutez'):
        return {'int': str(v)}
    if p == 'timestamp':
        if opt or not ts_in_rfc_range(v):
            return {'int': str(v)}
        return {'string': ts_to_rfc3339(v)}
    if p == 'string':
        return {'string': v}
    if p in ('bytes', 'bls12_381_g1', 'bls12_381_g2', 'chest', 'chest_key'):
        return {'bytes': v.hex()}
    if p == 'bls12_381_fr':
        return {'bytes': (v % O.BLS_R).to_bytes(32, 'little').hex()}
    if p == 'chain_id':
        return {'bytes': v.hex()} if opt else {'string': B.encode(v, 'Net')}
    if p == 'key_hash':
        return {'bytes': v.hex()} if opt else {'string': kh_to_b58(v)}
    if p == 'key':
        return {'bytes': v.hex()} if opt else {'string': key_to_b58(v)}
    if p == 'signature':
        return {'bytes': v.hex()} if opt else {'string': sig_to_b58(v)}
    if p in ('address', 'contract'):
        return {'bytes': (v[0] + v[1].encode()).hex()} if opt else {'string': address_to_str(v)}
    if p == 'pair':
        if mode == 'legacy_optimized':
            return {'prim': 'Pair', 'args': [render(v[0], t[1], mode), render(v[1], t[2], mode)]}
        items = [render(x, xt, mode) for x, xt in comb_values(v, t)]
        if mode == 'readable' or len(items) == 2:
            return {'prim': 'Pair', 'args': items}
        if len(items) == 3:
            return {'prim': 'Pair', 'args': [items[0], {'prim': 'Pair', 'args': items[1:]}]}
        return items
    if p == 'option':
        return {'prim': 'None'} if v is None else {'prim': 'Some', 'args': [render(v[1], t[1], mode)]}
    if p == 'or':
        return {'prim': 'Left' if v[0] == 'L' else 'Right', 'args': [render(v[1], t[1] if v[0] == 'L' else t[2], mode)]}
    if p in ('list', 'set'):
        return [render(x, t[1], mode) for x in v]
    if p in ('map', 'big_map'):
        return [{'prim': 'Elt', 'args': [render(k, t[1], mode), render(x, t[2], mode)]} for k, x in v]
    if p == 'lambda':
        if isinstance(v, tuple) and v and v[0] == 'rec':
            return {'prim': 'Lambda_rec', 'args': [v[1]]}
        return v
    if p == 'ticket':      # written as the comb (ticketer, contents, amount)
        return render((v[0], (v[1], v[2])), ('pair', ('address',), ('pair', t[1], ('nat',))), mode)
    raise ParseError('cannot render type ' + p)


def pack(v, t):
    return b'\x05' + MB.encode(render(v, t, 'optimized'))


def script_expr_hash(packed):
    return B.encode(hashlib.blake2b(packed, digest_size=32).digest(), 'expr')


def key_hash_of(v, t):
    """Big-map key hash: script-expression hash of the packed key."""
    return script_expr_hash(pack(v, t))


# ---- typed reader (lenient in spelling, strict in structure) ------------------------------------------------------
def _lit(e, kind):
    if not isinstance(e, dict) or kind not in e or 'prim' in e:
        raise ParseError('expected %s literal, got %r' % (kind, e))
    return e[kind]


def _prim(e, names):
    if not isinstance(e, dict) or e.get('prim') not in names:
        raise ParseError('expected %s, got %r' % ('/'.join(names), e))
    return e['prim'], e.get('args') or []


def _str_or_bytes(e):
    if isinstance(e, dict) and 'prim' not in e:
        if 'string' in e:
            return 'string', e['string']
        if 'bytes' in e:
            try:
                return 'bytes', bytes.fromhex(e['bytes'])
            except ValueError:
                raise ParseError('bad hex')
    raise ParseError('expected string or bytes, got %r' % (e,))


def parse(e, t, strict_order=True):
    p = t[0]
    if p == 'unit':
        _, a = _prim(e, ['Unit'])
        if a:
            raise ParseError('Unit with args')
        return ()
    if p == 'bool':
        n, a = _prim(e, ['True', 'False'])
        if a:
            raise ParseError('bool with args')
        return n == 'True'
    if p in ('int', 'nat', 'mutez'):
        v = int(_lit(e, 'int'))
        if p != 'int' and v < 0:
            raise ParseError('negative ' + p)
        if p == 'mutez' and v > MAX_MUTEZ:
            raise ParseError('mutez overflow')
        return v
    if p == 'timestamp':
        if isinstance(e, dict) and 'int' in e and 'prim' not in e:
            return int(e['int'])
        return ts_from_string(_lit(e, 'string'))
    if p == 'string':
        return _lit(e, 'string')
    if p in ('bytes', 'chest', 'chest_key'):
        try:
            return bytes.fromhex(_lit(e, 'bytes'))
        except ValueError:
            raise ParseError('bad hex')
    if p in ('bls12_381_g1', 'bls12_381_g2'):
        b = bytes.fromhex(_lit(e, 'bytes'))
        if len(b) != (96 if p.endswith('g1') else 192):
            raise ParseError('bad point length')
        return b
    if p == 'bls12_381_fr':
        if isinstance(e, dict) and 'int' in e and 'prim' not in e:
            return int(e['int']) % O.BLS_R
        b = bytes.fromhex(_lit(e, 'bytes'))
        if len(b) > 32:
            raise ParseError('fr too long')
        v = int.from_bytes(b, 'little')
        if v >= O.BLS_R:
            raise Uncertain('fr not reduced')
        return v
    try:
        if p == 'chain_id':
            k, x = _str_or_bytes(e)
            if k == 'string':
                return B.decode(x, 'Net')
            if len(x) != 4:
                raise ParseError('chain id length')
            return x
        if p == 'key_hash':
            k, x = _str_or_bytes(e)
            if k == 'string':
                return kh_from_b58(x)
            if len(x) != 21 or x[0] > 3:
                raise ParseError('key_hash bytes')
            return x
        if p == 'key':
            k, x = _str_or_bytes(e)
            if k == 'string':
                return key_from_b58(x)
            if not x or x[0] > 3 or len(x) != 1 + KEY_LEN[x[0]]:
                raise ParseError('key bytes')
            return x
        if p == 'signature':
            k, x = _str_or_bytes(e)
            if k == 'string':
                return sig_from_b58(x)
            if len(x) not in (64, 96):
                raise ParseError('signature length')
            return x
        if p in ('address', 'contract'):
            k, x = _str_or_bytes(e)
            return address_from_str(x) if k == 'string' else address_from_bytes(x)
    except ValueError as ex:
        raise ParseError(str(ex))
    if p == 'pair':
        if isinstance(e, list):
            args = e
        else:
            _, args = _prim(e, ['Pair'])
        if len(args) < 2:
            raise ParseError('pair arity')
        if len(args) == 2:
            return (parse(args[0], t[1], strict_order), parse(args[1], t[2], strict_order))
        if t[2][0] != 'pair':
            # sequence form only: the remaining elements are read as ONE value of the right-hand type when that type is itself
            # written as a sequence ({1 ; 2 ; 3 ; 4} at pair nat (pair nat (list nat)) is Pair 1 (Pair 2 {3 ; 4}))
            if isinstance(e, list) and t[2][0] in ('list', 'set', 'map', 'big_map', 'lambda'):
                return (parse(args[0], t[1], strict_order), parse(list(args[1:]), t[2], strict_order))
            raise ParseError('too many comb elements')
        return (parse(args[0], t[1], strict_order), parse(args[1:], t[2], strict_order))
    if p == 'option':
        n, a = _prim(e, ['None', 'Some'])
        if n == 'None':
            if a:
                raise ParseError('None with args')
            return None
        if len(a) != 1:
            raise ParseError('Some arity')
        return ('Some', parse(a[0], t[1], strict_order))
    if p == 'or':
        n, a = _prim(e, ['Left', 'Right'])
        if len(a) != 1:
            raise ParseError('or arity')
        return ('L', parse(a[0], t[1], strict_order)) if n == 'Left' else ('R', parse(a[0], t[2], strict_order))
    if p in ('list', 'set'):
        if not isinstance(e, list):
            raise ParseError('expected sequence')
        items = [parse(x, t[1], strict_order) for x in e]
        if p == 'set' and strict_order:
            for a, b in zip(items, items[1:]):
                if O.compare(t[1], a, b) >= 0:
                    raise ParseError('set not strictly increasing')
        return items
    if p in ('map', 'big_map'):
        if not isinstance(e, list):
            raise ParseError('expected sequence')
        items = []
        for x in e:
            _, a = _prim(x, ['Elt'])
            if len(a) != 2:
                raise ParseError('Elt arity')
            items.append((parse(a[0], t[1], strict_order), parse(a[1], t[2], strict_order)))
        if strict_order:
            for a, b in zip(items, items[1:]):
                if O.compare(t[1], a[0], b[0]) >= 0:
                    raise ParseError('map keys not strictly increasing')
        return items
    if p == 'lambda':
        if isinstance(e, list):
            return e
        _, a = _prim(e, ['Lambda_rec'])
        return ('rec', a[0])
    if p == 'ticket':
        tk, (c, n) = parse(e, ('pair', ('address',), ('pair', t[1], ('nat',))), strict_order)
        if n <= 0:
            raise ParseError('ticket amount must be positive')
        return (tk, c, n)
    raise ParseError('cannot parse type ' + p)


def has_lambda_code(e, t):
    return t[0] == 'lambda' or any(has_lambda_code(None, a) for a in t[1:])


def unpack(data, t):
    """Reference for UNPACK: ('some', value) | ('none', reason) | ('dontcare', reason)."""
    if data[:1] != b'\x05':
        return 'none', 'no 0x05 prefix'
    st, tree, why = MB.decode(data[1:])
    if st == 'reject':
        return 'none', why
    try:
        v = parse(tree, t)
    except ParseError as ex:
        return ('none', str(ex)) if st == 'ok' else ('dontcare', why)
    except Uncertain as ex:
        return 'dontcare', str(ex)
    except Exception as ex:  # malformed spellings inside soft-decoded trees
        return 'dontcare', repr(ex)
    if st == 'dontcare':
        return 'dontcare', why
    return 'some', v
