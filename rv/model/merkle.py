"""Own padded-power-of-two Merkle tree over Blake2b-256 (stdlib only)."""
import hashlib


def H(b):
    return hashlib.blake2b(b, digest_size=32).digest()


def root(items):
    """Leaves = H(item); pad with copies of the last leaf to a power of two; empty list = H(b'')."""
    if not items:
        return H(b'')
    leaves = [H(x) for x in items]
    n = 1
    while n < len(leaves):
        n *= 2
    leaves += [leaves[-1]] * (n - len(leaves))
    while len(leaves) > 1:
        leaves = [H(leaves[i] + leaves[i + 1]) for i in range(0, len(leaves), 2)]
    return leaves[0]
