"""Own base58check + golden copy of the Tezos prefix table (stdlib only)."""
import hashlib

ALPHABET = '123456789ABCDEFGHJKLMNPQRSTUVWXYZabcdefghijkmnopqrstuvwxyz'
INDEX = {c: i for i, c in enumerate(ALPHABET)}

# (human prefix, encoded length, binary prefix, payload length, kind) — golden copy from the Tezos base58 module
KINDS = [
    ('B', 51, bytes([1, 52]), 32, 'block hash'),
    ('o', 51, bytes([5, 116]), 32, 'operation hash'),
    ('Lo', 52, bytes([133, 233]), 32, 'operation list hash'),
    ('LLo', 53, bytes([29, 159, 109]), 32, 'operation list list hash'),
    ('P', 51, bytes([2, 170]), 32, 'protocol hash'),
    ('Co', 52, bytes([79, 199]), 32, 'context hash'),
    ('tz1', 36, bytes([6, 161, 159]), 20, 'ed25519 public key hash'),
    ('tz2', 36, bytes([6, 161, 161]), 20, 'secp256k1 public key hash'),
    ('tz3', 36, bytes([6, 161, 164]), 20, 'p256 public key hash'),
    ('tz4', 36, bytes([6, 161, 166]), 20, 'bls public key hash'),
    ('KT1', 36, bytes([2, 90, 121]), 20, 'contract hash'),
    ('txr1', 37, bytes([1, 128, 120, 31]), 20, 'tx rollup l2 address'),
    ('sr1', 36, bytes([6, 124, 117]), 20, 'smart rollup address'),
    ('src1', 54, bytes([17, 165, 134, 138]), 32, 'smart rollup commitment hash'),
    ('srs1', 54, bytes([17, 165, 235, 240]), 32, 'smart rollup state hash'),
    ('srib1', 55, bytes([3, 255, 138, 145, 110]), 32, 'smart rollup inbox hash'),
    ('srib2', 55, bytes([3, 255, 138, 145, 140]), 32, 'smart rollup merkelized payload hash'),
    ('id', 30, bytes([153, 103]), 16, 'cryptobox public key hash'),
    ('expr', 54, bytes([13, 44, 64, 27]), 32, 'script expression hash'),
    ('edsk', 54, bytes([13, 15, 58, 7]), 32, 'ed25519 seed'),
    ('edpk', 54, bytes([13, 15, 37, 217]), 32, 'ed25519 public key'),
    ('spsk', 54, bytes([17, 162, 224, 201]), 32, 'secp256k1 secret key'),
    ('p2sk', 54, bytes([16, 81, 238, 189]), 32, 'p256 secret key'),
    ('edesk', 88, bytes([7, 90, 60, 179, 41]), 56, 'ed25519 encrypted seed'),
    ('spesk', 88, bytes([9, 237, 241, 174, 150]), 56, 'secp256k1 encrypted secret key'),
    ('p2esk', 88, bytes([9, 48, 57, 115, 171]), 56, 'p256 encrypted secret key'),
    ('sppk', 55, bytes([3, 254, 226, 86]), 33, 'secp256k1 public key'),
    ('p2pk', 55, bytes([3, 178, 139, 127]), 33, 'p256 public key'),
    ('SSp', 53, bytes([38, 248, 136]), 32, 'secp256k1 scalar'),
    ('GSp', 54, bytes([5, 92, 0]), 33, 'secp256k1 element'),
    ('edsk', 98, bytes([43, 246, 78, 7]), 64, 'ed25519 secret key'),
    ('edsig', 99, bytes([9, 245, 205, 134, 18]), 64, 'ed25519 signature'),
    ('spsig', 99, bytes([13, 115, 101, 19, 63]), 64, 'secp256k1 signature'),
    ('p2sig', 98, bytes([54, 240, 44, 52]), 64, 'p256 signature'),
    ('sig', 96, bytes([4, 130, 43]), 64, 'generic signature'),
    ('Net', 15, bytes([87, 82, 0]), 4, 'chain id'),
    ('nce', 53, bytes([69, 220, 169]), 32, 'seed nonce hash'),
    ('btz1', 37, bytes([1, 2, 49, 223]), 20, 'blinded public key hash'),
    ('vh', 52, bytes([1, 106, 242]), 32, 'block payload hash'),
    ('BLsig', 142, bytes([40, 171, 64, 207]), 96, 'bls signature'),
    ('BLpk', 76, bytes([6, 149, 135, 204]), 48, 'bls public key'),
    ('BLsk', 54, bytes([3, 150, 192, 40]), 32, 'bls secret key'),
    ('BLesk', 88, bytes([2, 5, 30, 53, 25]), 56, 'bls encrypted secret key'),
]
assert len(KINDS) == 43
BY_PREFIX = {}
for _k in KINDS:
    BY_PREFIX.setdefault(_k[0], []).append(_k)


def b58encode(b):
    n = int.from_bytes(b, 'big')
    out = ''
    while n:
        n, r = divmod(n, 58)
        out = ALPHABET[r] + out
    pad = len(b) - len(b.lstrip(b'\0'))
    return '1' * pad + out


def b58decode(s):
    n = 0
    for c in s:
        if c not in INDEX:
            raise ValueError('bad character')
        n = n * 58 + INDEX[c]
    pad = len(s) - len(s.lstrip('1'))
    body = n.to_bytes((n.bit_length() + 7) // 8, 'big') if n else b''
    return b'\0' * pad + body


def checksum(b):
    return hashlib.sha256(hashlib.sha256(b).digest()).digest()[:4]


def encode_check(payload, binprefix):
    raw = binprefix + payload
    return b58encode(raw + checksum(raw))


def decode_check(s):
    raw = b58decode(s)
    if len(raw) < 4 or checksum(raw[:-4]) != raw[-4:]:
        raise ValueError('bad checksum')
    return raw[:-4]


def encode(payload, prefix):
    """Typed encode: by human prefix and payload length."""
    for k in BY_PREFIX.get(prefix, []):
        if k[3] == len(payload):
            return encode_check(payload, k[2])
    raise ValueError('no such kind')


def decode_kinds(s):
    """All kinds for which s is a valid typed encoding (checksum ok, exact binary prefix, exact payload length)."""
    try:
        raw = decode_check(s)
    except ValueError:
        return []
    out = []
    for k in KINDS:
        if raw.startswith(k[2]) and len(raw) == len(k[2]) + k[3]:
            out.append(k)
    return out


def decode(s, prefix=None):
    ks = decode_kinds(s)
    if prefix is not None:
        ks = [k for k in ks if k[0] == prefix]
    if len(ks) != 1:
        raise ValueError('not a valid typed encoding')
    return decode_check(s)[len(ks[0][2]):]
