"""Own BIP-39 checksum and seed derivation (stdlib; the English word list is read as a data file)."""
import hashlib
import os
import unicodedata

_WORDS = None


def words():
    global _WORDS
    if _WORDS is None:
        import mnemonic as _m  # only for the location of the word-list data file
        p = os.path.join(os.path.dirname(_m.__file__), 'wordlist', 'english.txt')
        _WORDS = [w.strip() for w in open(p, encoding='utf-8') if w.strip()]
        assert len(_WORDS) == 2048
    return _WORDS


def from_entropy(ent):
    assert len(ent) in (16, 20, 24, 28, 32)
    cs = len(ent) // 4
    bits = bin(int.from_bytes(ent, 'big'))[2:].zfill(len(ent) * 8) + bin(hashlib.sha256(ent).digest()[0])[2:].zfill(8)[:cs]
    w = words()
    return [w[int(bits[i:i + 11], 2)] for i in range(0, len(bits), 11)]


def valid(word_list):
    """BIP-39: length in {12,15,18,21,24}, every word in the list, checksum bits match."""
    w = words()
    if len(word_list) not in (12, 15, 18, 21, 24):
        return False
    try:
        idx = [w.index(x) for x in word_list]
    except ValueError:
        return False
    bits = ''.join(bin(i)[2:].zfill(11) for i in idx)
    ent_bits = len(bits) * 32 // 33
    ent = int(bits[:ent_bits], 2).to_bytes(ent_bits // 8, 'big')
    cs = bits[ent_bits:]
    return bin(int.from_bytes(hashlib.sha256(ent).digest(), 'big'))[2:].zfill(256)[:len(cs)] == cs


def seed(mnemonic, passphrase=''):
    m = unicodedata.normalize('NFKD', mnemonic)
    p = unicodedata.normalize('NFKD', passphrase)
    return hashlib.pbkdf2_hmac('sha512', m.encode('utf-8'), ('mnemonic' + p).encode('utf-8'), 2048, 64)
