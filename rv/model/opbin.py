"""Independent encoder and decoder of the Tezos operation-group binary format for the kinds of C06
(stdlib only; written from the Tezos encoding documentation, shares nothing with pytezos)."""
from . import base58 as B
from . import micheline_bin as MB
from . import pack as P

TAGS = {'activate_account': 4, 'failing_noop': 17, 'reveal': 107, 'transaction': 108, 'origination': 109, 'delegation': 110,
        'register_global_constant': 111, 'transfer_ticket': 158, 'smart_rollup_add_messages': 201,
        'smart_rollup_execute_outbox_message': 206}
KIND = {v: k for k, v in TAGS.items()}
ENTRYPOINTS = ['default', 'root', 'do', 'set_delegate', 'remove_delegate', 'deposit', 'stake', 'unstake', 'finalize_unstake',
               'set_delegate_parameters']
MANAGER = {'reveal', 'transaction', 'origination', 'delegation', 'register_global_constant', 'transfer_ticket',
           'smart_rollup_add_messages', 'smart_rollup_execute_outbox_message'}


def _len4(b):
    return len(b).to_bytes(4, 'big') + b


def enc_pkh(s):
    return P.kh_from_b58(s)


def enc_contract(s):
    return P.addr22_from_b58(s)


def enc_pk(s):
    return P.key_from_b58(s)


def enc_entrypoint(name):
    if name in ENTRYPOINTS:
        return bytes([ENTRYPOINTS.index(name)])
    raw = name.encode()
    assert 0 < len(raw) <= 31
    return b'\xff' + bytes([len(raw)]) + raw


def encode_content(c):
    k = c['kind']
    out = bytes([TAGS[k]])
    N = MB.enc_nat
    if k in MANAGER:
        out += enc_pkh(c['source']) + N(int(c['fee'])) + N(int(c['counter'])) + N(int(c['gas_limit'])) + N(int(c['storage_limit']))
    if k == 'activate_account':
        out += B.decode(c['pkh'], 'tz1') + bytes.fromhex(c['secret'])
    elif k == 'failing_noop':
        out += _len4(c['arbitrary'].encode())
    elif k == 'reveal':
        out += enc_pk(c['public_key'])
        if c.get('proof') is not None:
            out += b'\xff' + _len4(B.decode(c['proof'], 'BLsig'))
        else:
            out += b'\x00'
    elif k == 'transaction':
        out += N(int(c['amount'])) + enc_contract(c['destination'])
        p = c.get('parameters')
        if p and not (p['entrypoint'] == 'default' and p['value'] == {'prim': 'Unit'}):
            out += b'\xff' + enc_entrypoint(p['entrypoint']) + _len4(MB.encode(p['value']))
        else:
            out += b'\x00'
    elif k == 'origination':
        out += N(int(c['balance']))
        if c.get('delegate'):
            out += b'\xff' + enc_pkh(c['delegate'])
        else:
            out += b'\x00'
        out += _len4(MB.encode(c['script']['code'])) + _len4(MB.encode(c['script']['storage']))
    elif k == 'delegation':
        if c.get('delegate'):
            out += b'\xff' + enc_pkh(c['delegate'])
        else:
            out += b'\x00'
    elif k == 'register_global_constant':
        out += _len4(MB.encode(c['value']))
    elif k == 'transfer_ticket':
        out += _len4(MB.encode(c['ticket_contents'])) + _len4(MB.encode(c['ticket_ty'])) + enc_contract(c['ticket_ticketer'])
        out += N(int(c['ticket_amount'])) + enc_contract(c['destination']) + _len4(c['entrypoint'].encode())
    elif k == 'smart_rollup_add_messages':
        out += _len4(b''.join(_len4(bytes.fromhex(m)) for m in c['message']))
    elif k == 'smart_rollup_execute_outbox_message':
        out += B.decode(c['rollup'], 'sr1') + B.decode(c['cemented_commitment'], 'src1') + _len4(bytes.fromhex(c['output_proof']))
    return out


def encode_group(g):
    return B.decode(g['branch'], 'B') + b''.join(encode_content(c) for c in g['contents'])


class DecodeError(Exception):
    pass


class _R:
    def __init__(self, data):
        self.d, self.p = data, 0

    def take(self, n):
        if self.p + n > len(self.d):
            raise DecodeError('truncated')
        b = self.d[self.p:self.p + n]
        self.p += n
        return b

    def byte(self):
        return self.take(1)[0]

    def nat(self):
        v, shift = 0, 0
        while True:
            b = self.byte()
            v |= (b & 0x7F) << shift
            shift += 7
            if not b & 0x80:
                if b == 0 and shift > 7:
                    raise DecodeError('non-minimal nat')
                return v

    def dyn(self):
        return self.take(int.from_bytes(self.take(4), 'big'))

    def bool(self):
        b = self.byte()
        if b not in (0, 255):
            raise DecodeError('bad bool %d' % b)
        return b == 255

    def pkh(self):
        b = self.take(21)
        if b[0] > 3:
            raise DecodeError('bad pkh tag')
        return P.kh_to_b58(b)

    def contract(self):
        a, _ = P.address_from_bytes(self.take(22))
        return P.addr22_to_b58(a)

    def pk(self):
        tag = self.byte()
        if tag > 3:
            raise DecodeError('bad pk tag')
        return P.key_to_b58(bytes([tag]) + self.take(P.KEY_LEN[tag]))

    def micheline(self):
        st, tree, why = MB.decode(self.dyn())
        if st == 'reject':
            raise DecodeError('micheline: ' + why)
        return tree

    def entrypoint(self):
        t = self.byte()
        if t < len(ENTRYPOINTS):
            return ENTRYPOINTS[t]
        if t != 255:
            raise DecodeError('bad entrypoint tag %d' % t)
        n = self.byte()
        if n > 31:
            raise DecodeError('entrypoint too long')
        return self.take(n).decode('ascii')


def decode_group(data):
    """-> {'branch': B…, 'contents': [...]} in normal form (ints as int, absent optional fields omitted)."""
    r = _R(data)
    g = {'branch': B.encode(r.take(32), 'B'), 'contents': []}
    try:
        while r.p < len(data):
            tag = r.byte()
            if tag not in KIND:
                raise DecodeError('unknown operation tag %d' % tag)
            k = KIND[tag]
            c = {'kind': k}
            if k in MANAGER:
                c['source'] = r.pkh()
                for f in ('fee', 'counter', 'gas_limit', 'storage_limit'):
                    c[f] = r.nat()
            if k == 'activate_account':
                c['pkh'] = B.encode(r.take(20), 'tz1')
                c['secret'] = r.take(20).hex()
            elif k == 'failing_noop':
                c['arbitrary'] = r.dyn().decode('utf-8')
            elif k == 'reveal':
                c['public_key'] = r.pk()
                if r.bool():
                    c['proof'] = B.encode(r.dyn(), 'BLsig')
            elif k == 'transaction':
                c['amount'] = r.nat()
                c['destination'] = r.contract()
                if r.bool():
                    c['parameters'] = {'entrypoint': r.entrypoint(), 'value': r.micheline()}
            elif k == 'origination':
                c['balance'] = r.nat()
                if r.bool():
                    c['delegate'] = r.pkh()
                c['script'] = {'code': r.micheline(), 'storage': r.micheline()}
            elif k == 'delegation':
                if r.bool():
                    c['delegate'] = r.pkh()
            elif k == 'register_global_constant':
                c['value'] = r.micheline()
            elif k == 'transfer_ticket':
                c['ticket_contents'] = r.micheline()
                c['ticket_ty'] = r.micheline()
                c['ticket_ticketer'] = r.contract()
                c['ticket_amount'] = r.nat()
                c['destination'] = r.contract()
                c['entrypoint'] = r.dyn().decode('ascii')
            elif k == 'smart_rollup_add_messages':
                inner = _R(r.dyn())
                msgs = []
                while inner.p < len(inner.d):
                    msgs.append(inner.dyn().hex())
                c['message'] = msgs
            elif k == 'smart_rollup_execute_outbox_message':
                c['rollup'] = B.encode(r.take(20), 'sr1')
                c['cemented_commitment'] = B.encode(r.take(32), 'src1')
                c['output_proof'] = r.dyn().hex()
            g['contents'].append(c)
    except (ValueError, UnicodeDecodeError, P.ParseError, P.Uncertain) as e:
        raise DecodeError(str(e))
    return g


def normal_form(g):
    """Normal form of an input group for comparison with decode_group()."""
    out = {'branch': g['branch'], 'contents': []}
    for c in g['contents']:
        n = {}
        for k, v in c.items():
            if k in ('fee', 'counter', 'gas_limit', 'storage_limit', 'amount', 'balance', 'ticket_amount'):
                n[k] = int(v)
            elif k == 'delegate':
                if v:
                    n[k] = v
            elif k == 'proof':
                if v is not None:
                    n[k] = v
            elif k == 'parameters':
                if v and not (v['entrypoint'] == 'default' and v['value'] == {'prim': 'Unit'}):
                    n[k] = {'entrypoint': v['entrypoint'], 'value': MB.nf(v['value'])}
            elif k in ('value', 'ticket_contents', 'ticket_ty'):
                n[k] = MB.nf(v)
            elif k == 'script':
                n[k] = {'code': MB.nf(v['code']), 'storage': MB.nf(v['storage'])}
            else:
                n[k] = v
        out['contents'].append(n)
    return out


def normal_form_decoded(g):
    out = {'branch': g['branch'], 'contents': []}
    for c in g['contents']:
        n = dict(c)
        if 'parameters' in n:
            n['parameters'] = {'entrypoint': n['parameters']['entrypoint'], 'value': MB.nf(n['parameters']['value'])}
        for k in ('value', 'ticket_contents', 'ticket_ty'):
            if k in n:
                n[k] = MB.nf(n[k])
        if 'script' in n:
            n['script'] = {'code': MB.nf(n['script']['code']), 'storage': MB.nf(n['script']['storage'])}
        out['contents'].append(n)
    return out
