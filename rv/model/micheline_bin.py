"""Independent Tezos binary Micheline codec (stdlib only, imports nothing from pytezos).

encode(expr) -> bytes                         expr is Micheline JSON (dict/list)
decode(data) -> (status, tree, reason)        status in {'ok', 'reject', 'dontcare'}
  'reject'   : structurally invalid for certain (unknown tag / primitive, truncation, inconsistent length prefix,
               trailing bytes, zero continuation group = non-minimal integer)
  'dontcare' : decodable but in a form whose acceptance by Tezos is not certain from the documentation
               (negative zero, non-canonical tag choice, non-UTF-8 strings, odd annotation strings)
nf(expr) -> normal form used for equality (ints as Python ints, absent == empty annots/args).
"""

PRIMS = [
    'parameter', 'storage', 'code', 'False', 'Elt', 'Left', 'None', 'Pair', 'Right', 'Some', 'True', 'Unit',
    'PACK', 'UNPACK', 'BLAKE2B', 'SHA256', 'SHA512', 'ABS', 'ADD', 'AMOUNT', 'AND', 'BALANCE', 'CAR', 'CDR',
    'CHECK_SIGNATURE', 'COMPARE', 'CONCAT', 'CONS', 'CREATE_ACCOUNT', 'CREATE_CONTRACT', 'IMPLICIT_ACCOUNT', 'DIP',
    'DROP', 'DUP', 'EDIV', 'EMPTY_MAP', 'EMPTY_SET', 'EQ', 'EXEC', 'FAILWITH', 'GE', 'GET', 'GT', 'HASH_KEY', 'IF',
    'IF_CONS', 'IF_LEFT', 'IF_NONE', 'INT', 'LAMBDA', 'LE', 'LEFT', 'LOOP', 'LSL', 'LSR', 'LT', 'MAP', 'MEM', 'MUL',
    'NEG', 'NEQ', 'NIL', 'NONE', 'NOT', 'NOW', 'OR', 'PAIR', 'PUSH', 'RIGHT', 'SIZE', 'SOME', 'SOURCE', 'SENDER',
    'SELF', 'STEPS_TO_QUOTA', 'SUB', 'SWAP', 'TRANSFER_TOKENS', 'SET_DELEGATE', 'UNIT', 'UPDATE', 'XOR', 'ITER',
    'LOOP_LEFT', 'ADDRESS', 'CONTRACT', 'ISNAT', 'CAST', 'RENAME', 'bool', 'contract', 'int', 'key', 'key_hash',
    'lambda', 'list', 'map', 'big_map', 'nat', 'option', 'or', 'pair', 'set', 'signature', 'string', 'bytes',
    'mutez', 'timestamp', 'unit', 'operation', 'address', 'SLICE', 'DIG', 'DUG', 'EMPTY_BIG_MAP', 'APPLY',
    'chain_id', 'CHAIN_ID', 'LEVEL', 'SELF_ADDRESS', 'never', 'NEVER', 'UNPAIR', 'VOTING_POWER',
    'TOTAL_VOTING_POWER', 'KECCAK', 'SHA3', 'PAIRING_CHECK', 'bls12_381_g1', 'bls12_381_g2', 'bls12_381_fr',
    'sapling_state', 'sapling_transaction_deprecated', 'SAPLING_EMPTY_STATE', 'SAPLING_VERIFY_UPDATE', 'ticket',
    'TICKET_DEPRECATED', 'READ_TICKET', 'SPLIT_TICKET', 'JOIN_TICKETS', 'GET_AND_UPDATE', 'chest', 'chest_key',
    'OPEN_CHEST', 'VIEW', 'view', 'constant', 'SUB_MUTEZ', 'tx_rollup_l2_address', 'MIN_BLOCK_TIME',
    'sapling_transaction', 'EMIT', 'Lambda_rec', 'LAMBDA_REC', 'TICKET', 'BYTES', 'NAT', 'Ticket',
    'IS_IMPLICIT_ACCOUNT',
]
assert len(PRIMS) == 159
TAG = {p: i for i, p in enumerate(PRIMS)}
# the deprecated CREATE_ACCOUNT primitive has no usable spelling in pytezos ('__CREATE_ACCOUNT__'); never generated
GENERATED_PRIMS = [p for p in PRIMS if p != 'CREATE_ACCOUNT']


def enc_zint(v):
    n = abs(v)
    b = (n & 0x3F) | (0x40 if v < 0 else 0)
    n >>= 6
    out = bytearray()
    while n:
        out.append(b | 0x80)
        b = n & 0x7F
        n >>= 7
    out.append(b)
    return bytes(out)


def enc_nat(v):
    assert v >= 0
    out = bytearray()
    while True:
        b = v & 0x7F
        v >>= 7
        if v:
            out.append(b | 0x80)
        else:
            out.append(b)
            return bytes(out)


def _len4(b):
    return len(b).to_bytes(4, 'big') + b


def encode(e):
    if isinstance(e, list):
        return b'\x02' + _len4(b''.join(encode(x) for x in e))
    if not isinstance(e, dict):
        raise TypeError(e)
    if 'prim' in e:
        args = e.get('args') or []
        annots = e.get('annots') or []
        n = len(args)
        tag = min(3 + 2 * n + (1 if annots else 0), 9)
        out = bytes([tag, TAG[e['prim']]])
        body = b''.join(encode(a) for a in args)
        if n >= 3:
            out += _len4(body) + _len4(' '.join(annots).encode())
        else:
            out += body
            if annots:
                out += _len4(' '.join(annots).encode())
        return out
    if 'int' in e:
        return b'\x00' + enc_zint(int(e['int']))
    if 'string' in e:
        return b'\x01' + _len4(e['string'].encode())
    if 'bytes' in e:
        return b'\x0a' + _len4(bytes.fromhex(e['bytes']))
    raise TypeError(e)


class Reject(Exception):
    pass


ANNOT_OK = set('abcdefghijklmnopqrstuvwxyzABCDEFGHIJKLMNOPQRSTUVWXYZ0123456789_.%@:')


def decode(data):
    """-> (status, tree|None, reason)"""
    soft = []
    pos = 0

    def need(n):
        if pos + n > len(data):
            raise Reject('truncated')

    def rd_len():
        nonlocal pos
        need(4)
        n = int.from_bytes(data[pos:pos + 4], 'big')
        pos += 4
        need(n)
        return n

    def rd_annots():
        nonlocal pos
        n = rd_len()
        raw = data[pos:pos + n]
        pos += n
        try:
            s = raw.decode()
        except UnicodeDecodeError:
            soft.append('non-utf8 annots')
            return None
        if s == '':
            return []
        parts = s.split(' ')
        if any(p == '' or not set(p) <= ANNOT_OK or p[0] not in '%@:' for p in parts):
            soft.append('odd annotation string')
        return parts

    def rd():
        nonlocal pos
        need(1)
        tag = data[pos]
        pos += 1
        if tag == 0:
            need(1)
            b = data[pos]
            pos += 1
            neg = bool(b & 0x40)
            v = b & 0x3F
            shift = 6
            last = b
            groups = 1
            while last & 0x80:
                need(1)
                last = data[pos]
                pos += 1
                v |= (last & 0x7F) << shift
                shift += 7
                groups += 1
            if groups > 1 and last == 0:
                raise Reject('non-minimal integer (zero continuation group)')
            if neg and v == 0:
                soft.append('negative zero')
            return {'int': str(-v if neg else v)}
        if tag == 1:
            n = rd_len()
            raw = data[pos:pos + n]
            pos += n
            try:
                return {'string': raw.decode()}
            except UnicodeDecodeError:
                soft.append('non-utf8 string')
                return {'string': raw.decode('latin-1')}
        if tag == 2:
            n = rd_len()
            end = pos + n
            items = []
            while pos < end:
                items.append(rd())
            if pos != end:
                raise Reject('sequence length prefix inconsistent')
            return items
        if 3 <= tag <= 9:
            need(1)
            p = data[pos]
            pos += 1
            if p >= len(PRIMS):
                raise Reject('unknown primitive 0x%02x' % p)
            e = {'prim': PRIMS[p]}
            if PRIMS[p] == 'CREATE_ACCOUNT':
                soft.append('deprecated primitive without a stable spelling')
            if tag == 9:
                n = rd_len()
                end = pos + n
                args = []
                while pos < end:
                    args.append(rd())
                if pos != end:
                    raise Reject('args length prefix inconsistent')
                if len(args) < 3:
                    soft.append('general tag with <3 args')
                ann = rd_annots()
            else:
                nargs = (tag - 3) // 2
                args = [rd() for _ in range(nargs)]
                ann = None
                if (tag - 3) % 2:
                    ann = rd_annots()
                    if ann == []:
                        soft.append('annotated tag with empty annots')
            if args:
                e['args'] = args
            if ann:
                e['annots'] = ann
            return e
        if tag == 10:
            n = rd_len()
            raw = data[pos:pos + n]
            pos += n
            return {'bytes': raw.hex()}
        raise Reject('unknown tag %d' % tag)

    try:
        tree = rd()
        if pos != len(data):
            raise Reject('trailing bytes')
    except Reject as r:
        return 'reject', None, str(r)
    except RecursionError:
        return 'dontcare', None, 'too deep'
    if soft:
        return 'dontcare', tree, '; '.join(sorted(set(soft)))
    return 'ok', tree, ''


def nf(e):
    """Normal form for equality: ints as Python ints; absent == empty args/annots."""
    if isinstance(e, list):
        return ('seq', tuple(nf(x) for x in e))
    if 'prim' in e:
        return ('prim', e['prim'], tuple(nf(a) for a in (e.get('args') or [])), tuple(e.get('annots') or []))
    if 'int' in e:
        return ('int', int(e['int']))
    if 'string' in e:
        return ('string', e['string'])
    if 'bytes' in e:
        return ('bytes', e['bytes'].lower())
    raise TypeError(e)
