"""BLS12-381 reference for the Michelson instructions: own decoding/encoding of the uncompressed Tezos point formats
(including the point at infinity) on top of py_ecc's raw group operations."""
from py_ecc.fields import optimized_bls12_381_FQ as FQ
from py_ecc.fields import optimized_bls12_381_FQ2 as FQ2
from py_ecc.fields import optimized_bls12_381_FQ12 as FQ12
from py_ecc.optimized_bls12_381 import G1, G2, Z1, Z2, add as _add, final_exponentiate, is_inf, multiply, neg as _neg, normalize, pairing

from .order import BLS_R

INF_FLAG = 0x40


def dec_g1(b):
    assert len(b) == 96
    if b[0] & INF_FLAG:
        return Z1
    return (FQ(int.from_bytes(b[:48], 'big')), FQ(int.from_bytes(b[48:], 'big')), FQ(1))


def enc_g1(p):
    if is_inf(p):
        return bytes([INF_FLAG]) + bytes(95)
    x, y = normalize(p)
    return x.n.to_bytes(48, 'big') + y.n.to_bytes(48, 'big')


def dec_g2(b):
    assert len(b) == 192
    if b[0] & INF_FLAG:
        return Z2
    xi, xr, yi, yr = (int.from_bytes(b[i:i + 48], 'big') for i in (0, 48, 96, 144))
    return (FQ2([xr, xi]), FQ2([yr, yi]), FQ2([1, 0]))


def enc_g2(p):
    if is_inf(p):
        return bytes([INF_FLAG]) + bytes(191)
    x, y = normalize(p)
    (xr, xi), (yr, yi) = x.coeffs, y.coeffs
    return b''.join(int(c).to_bytes(48, 'big') for c in (xi, xr, yi, yr))


def _codec(prim):
    return (dec_g1, enc_g1) if prim.endswith('g1') else (dec_g2, enc_g2)


def add(prim, a, b):
    d, e = _codec(prim)
    return e(_add(d(a), d(b)))


def neg(prim, a):
    d, e = _codec(prim)
    return e(_neg(d(a)))


def mul(prim, a, k):
    d, e = _codec(prim)
    return e(multiply(d(a), k % BLS_R))


def g1(k):
    return enc_g1(multiply(G1, k % BLS_R))


def g2(k):
    return enc_g2(multiply(G2, k % BLS_R))


def pairing_check(pairs):
    prod = FQ12.one()
    for a, b in pairs:
        p, q = dec_g1(a), dec_g2(b)
        if is_inf(p) or is_inf(q):
            continue
        prod = prod * pairing(q, p, final_exponentiate=False)
    return final_exponentiate(prod) == FQ12.one()
