"""The Michelson total order on comparable values (stdlib only). compare(t, a, b) -> -1 | 0 | 1.
weak(t, a, b) -> reason | None : sub-cases where the reference sign is not certain from documentation; only the
total-order laws are demanded there (DESIGN §4.3)."""

BLS_R = 0x73eda753299d7d483339d80809a1d80553bda402fffe5bfeffffffff00000001


def _cmp(a, b):
    return (a > b) - (a < b)


def compare(t, a, b):
    p = t[0]
    if p in ('unit', 'never'):
        return 0
    if p in ('bool', 'int', 'nat', 'mutez', 'timestamp', 'string', 'bytes', 'chain_id', 'key_hash', 'signature',
             'tx_rollup_l2_address'):
        return _cmp(a, b)
    if p == 'key':
        # curve tag, then the key bytes; P-256 keys are held uncompressed by the protocol (X then Y), so the
        # compression/parity byte does not take part before X (Y itself is not recoverable without curve arithmetic:
        # same X with different parity is a weak sub-case)
        if a[0] != b[0]:
            return _cmp(a[0], b[0])
        if a[0] == 2:
            return _cmp(a[2:], b[2:]) or _cmp(a[1], b[1])
        return _cmp(a, b)
    if p == 'address':
        c = _cmp(a[0], b[0])
        if c:
            return c
        # entrypoint compared as the protocol stores it: the default entrypoint is the string "default"
        return _cmp(a[1] or 'default', b[1] or 'default')
    if p == 'pair':
        c = compare(t[1], a[0], b[0])
        return c if c else compare(t[2], a[1], b[1])
    if p == 'option':
        if a is None or b is None:
            return _cmp(a is not None, b is not None)
        return compare(t[1], a[1], b[1])
    if p == 'or':
        if a[0] != b[0]:
            return -1 if a[0] == 'L' else 1
        return compare(t[1] if a[0] == 'L' else t[2], a[1], b[1])
    raise TypeError('not comparable: %r' % (t,))


def weak(t, a, b):
    p = t[0]
    if p == 'key':
        if a[0] == 2 and b[0] == 2 and a[2:] == b[2:] and a[1] != b[1]:
            return 'p256 keys differing only in the parity byte'
        return None
    if p == 'address':
        return None     # entrypoints compare as strings, the default one as "default" (Entrypoint_repr.default)
    if p == 'pair':
        w = weak(t[1], a[0], b[0])
        if w:
            return w
        if compare(t[1], a[0], b[0]) == 0:
            return weak(t[2], a[1], b[1])
        return None
    if p == 'option':
        if a is not None and b is not None:
            return weak(t[1], a[1], b[1])
        return None
    if p == 'or':
        if a[0] == b[0]:
            return weak(t[1] if a[0] == 'L' else t[2], a[1], b[1])
        return None
    return None


def sort_unique(t, items):
    """Sorted, deduplicated list under the model order (insertion sort: n is tiny)."""
    out = []
    for x in items:
        lo = 0
        dup = False
        for i, y in enumerate(out):
            c = compare(t, x, y)
            if c == 0:
                dup = True
                break
            if c > 0:
                lo = i + 1
        if not dup:
            out.insert(lo, x)
    return out
